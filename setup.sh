#!/bin/sh
# offline setup: parse every TLA+ module and byte-compile the harness
set -e
cd "$(dirname "$0")"
mkdir -p evidence .work
if [ -d spec ]; then
  for f in spec/*.tla; do
    [ -e "$f" ] || continue
    (cd spec && tla-sany "$(basename "$f")" >/dev/null 2>&1) || { echo "SANY failed: $f"; (cd spec && tla-sany "$(basename "$f")" | tail -20); exit 1; }
  done
fi
if [ -d harness ]; then /venv/bin/python -m compileall -q harness >/dev/null; fi
echo setup ok
