---------------------------- MODULE D42Schema ----------------------------
(***************************************************************************)
(* Abstract schemas: one record shape per d42 schema type, mirroring the   *)
(* props registry.  Absent props are NoneOpt, present ones Some(x).        *)
(* Declared numbers/lengths are kept as *value records* (VInt / VBool /    *)
(* VFloat) because d42 stores the caller's object (True stays True).       *)
(***************************************************************************)
EXTENDS D42Regex

BareNone == [t |-> "none"]
BareBool == [t |-> "bool", value |-> NoneOpt]
BareInt == [t |-> "int", value |-> NoneOpt, min |-> NoneOpt, max |-> NoneOpt]
BareFloat == [t |-> "float", value |-> NoneOpt, min |-> NoneOpt, max |-> NoneOpt,
              precision |-> NoneOpt]
BareStr == [t |-> "str", value |-> NoneOpt, len |-> NoneOpt, min_len |-> NoneOpt,
            max_len |-> NoneOpt, alphabet |-> NoneOpt, substr |-> NoneOpt, pattern |-> NoneOpt]
BareBytes == [t |-> "bytes", value |-> NoneOpt]
BareUuid == [t |-> "uuid4", value |-> NoneOpt]
BareDatetime == [t |-> "datetime", value |-> NoneOpt]
BareDate == [t |-> "date", value |-> NoneOpt]
\* type: Some(schema); elems: Some(Seq of schema | VEllipsis)
BareList == [t |-> "list", type |-> NoneOpt, elems |-> NoneOpt, len |-> NoneOpt,
             min_len |-> NoneOpt, max_len |-> NoneOpt]
\* keys: Some(Seq of [key |-> value, val |-> schema | VEllipsis, opt |-> BOOLEAN]);
\* the relaxed marker `...: ...` is the entry whose key is VEllipsis
BareDict == [t |-> "dict", keys |-> NoneOpt]
BareAny == [t |-> "any", types |-> NoneOpt]
SAlias(name, ty) == [t |-> "alias", name |-> name, type |-> ty]
\* a user-defined CustomSchema forwarding every hook to `inner`
SCustom(inner) == [t |-> "custom", inner |-> inner]

Bare(t) == CASE t = "none" -> BareNone [] t = "bool" -> BareBool [] t = "int" -> BareInt
             [] t = "float" -> BareFloat [] t = "str" -> BareStr [] t = "bytes" -> BareBytes
             [] t = "uuid4" -> BareUuid [] t = "datetime" -> BareDatetime
             [] t = "date" -> BareDate [] t = "list" -> BareList [] t = "dict" -> BareDict
             [] t = "any" -> BareAny

\* arguments that are schemas (a Python Schema instance passed to a DSL call)
ASchema(s) == [k |-> "schema", sch |-> s]
\* optional(key) wrapper used as a dict key
VOptional(key) == [k |-> "optional", key |-> key]
\* regex pattern arguments: a str whose content is the printed AST; or a str that does
\* not compile (why = "error": re.error, "overflow": OverflowError from sre_parse)
VPat(rx) == [k |-> "pat", rx |-> rx]
VBadPat(why) == [k |-> "badpat", why |-> why]

IsEll(e) == "k" \in DOMAIN e /\ e.k = "ellipsis"
IsSchemaRec(e) == "t" \in DOMAIN e

\* Python int value of an int-like value record (bool is int)
IntOf(v) == LET b == Base(v) IN IF b.k = "bool" THEN (IF b.tf THEN 1 ELSE 0) ELSE b.n

DKey(key, val, opt) == [key |-> key, val |-> val, opt |-> opt]
KeysHas(keys, key) == \E i \in DOMAIN keys : VEq(keys[i].key, key)
KeyIdx(keys, key) == CHOOSE i \in DOMAIN keys : VEq(keys[i].key, key)
IsRelaxed(keys) == KeysHas(keys, VEllipsis)
\* dict-literal semantics: assigning an existing key keeps its position
KeysPut(keys, e) == IF KeysHas(keys, e.key)
                    THEN [keys EXCEPT ![KeyIdx(keys, e.key)] = [e EXCEPT !.key = keys[KeyIdx(keys, e.key)].key]]
                    ELSE Append(keys, e)

Concrete(elems) == SelectSeq(elems, LAMBDA e : ~IsEll(e))
HasEll(elems) == \E i \in DOMAIN elems : IsEll(elems[i])

\* list element forms (as the validator classifies them)
ListForm(elems) ==
  LET n == Len(elems) IN
  IF n > 2 /\ IsEll(elems[1]) /\ IsEll(elems[n]) THEN "body"
  ELSE IF n >= 2 /\ IsEll(elems[n]) THEN "head"
  ELSE IF n >= 1 /\ IsEll(elems[1]) THEN "tail"
  ELSE "exact"

=============================================================================
