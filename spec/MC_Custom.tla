---------------------------- MODULE MC_Custom ----------------------------
(***************************************************************************)
(* C16: custom schema types behave like built-ins in every position.       *)
(*                                                                         *)
(* A forwarding CustomSchema is the node custom(inner); every operator of  *)
(* the specification is *defined* to see through it (that is what          *)
(* "forwarding" means).  The machine picks a schema tree, then wraps the   *)
(* sub-schema at one position (or at every position) and states that the   *)
(* wrapped tree is indistinguishable from the plain one.  Each wrapped     *)
(* tree is exported; the harness builds both trees on the real code, with  *)
(* a real CustomSchema subclass registered through register_type.          *)
(***************************************************************************)
EXTENDS D42Represent

CONSTANT Rich

VARIABLES s, w, phase, mask

vars == <<s, w, phase, mask>>

(***************************************************************************)
(* positions inside a schema tree                                          *)
(***************************************************************************)
PType == [st |-> "type", i |-> 0]
PElem(i) == [st |-> "elem", i |-> i]
PKeyAt(i) == [st |-> "key", i |-> i]
PAlt(i) == [st |-> "alt", i |-> i]
PAlias == [st |-> "alias", i |-> 0]

RECURSIVE Positions(_)
Positions(x) ==
  {<<>>} \cup
  CASE x.t = "list" ->
         (IF IsSome(x.type) THEN {<<PType>> \o p : p \in Positions(Get(x.type))} ELSE {}) \cup
         (IF IsSome(x.elems)
          THEN UNION {{<<PElem(i)>> \o p : p \in Positions(Get(x.elems)[i])} :
                      i \in {j \in DOMAIN Get(x.elems) : ~IsEll(Get(x.elems)[j])}}
          ELSE {})
    [] x.t = "dict" ->
         IF IsSome(x.keys)
         THEN UNION {{<<PKeyAt(i)>> \o p : p \in Positions(Get(x.keys)[i].val)} :
                     i \in {j \in DOMAIN Get(x.keys) : ~IsEll(Get(x.keys)[j].key)}}
         ELSE {}
    [] x.t = "any" ->
         IF IsSome(x.types)
         THEN UNION {{<<PAlt(i)>> \o p : p \in Positions(Get(x.types)[i])} : i \in DOMAIN Get(x.types)}
         ELSE {}
    [] x.t = "alias" -> {<<PAlias>> \o p : p \in Positions(x.type)}
    [] OTHER -> {}

RECURSIVE WrapAt(_, _)
WrapAt(x, path) ==
  IF path = <<>> THEN SCustom(x)
  ELSE LET h == Head(path)
           rest == Tail(path)
       IN  CASE h.st = "type" -> [x EXCEPT !.type = Some(WrapAt(Get(x.type), rest))]
             [] h.st = "elem" -> [x EXCEPT !.elems = Some([Get(x.elems) EXCEPT ![h.i] = WrapAt(Get(x.elems)[h.i], rest)])]
             [] h.st = "key" -> [x EXCEPT !.keys = Some([Get(x.keys) EXCEPT ![h.i] =
                                    [Get(x.keys)[h.i] EXCEPT !.val = WrapAt(Get(x.keys)[h.i].val, rest)]])]
             [] h.st = "alt" -> [x EXCEPT !.types = Some([Get(x.types) EXCEPT ![h.i] = WrapAt(Get(x.types)[h.i], rest)])]
             [] h.st = "alias" -> [x EXCEPT !.type = WrapAt(x.type, rest)]

RECURSIVE WrapAll(_)
WrapAll(x) ==
  SCustom(
    CASE x.t = "list" -> [x EXCEPT !.type = IF IsSome(x.type) THEN Some(WrapAll(Get(x.type))) ELSE NoneOpt,
                                   !.elems = IF IsSome(x.elems)
                                             THEN Some([i \in DOMAIN Get(x.elems) |->
                                                          IF IsEll(Get(x.elems)[i]) THEN VEllipsis ELSE WrapAll(Get(x.elems)[i])])
                                             ELSE NoneOpt]
      [] x.t = "dict" -> [x EXCEPT !.keys = IF IsSome(x.keys)
                                            THEN Some([i \in DOMAIN Get(x.keys) |->
                                                         IF IsEll(Get(x.keys)[i].key) THEN Get(x.keys)[i]
                                                         ELSE [Get(x.keys)[i] EXCEPT !.val = WrapAll(Get(x.keys)[i].val)]])
                                            ELSE NoneOpt]
      [] x.t = "any" -> [x EXCEPT !.types = IF IsSome(x.types)
                                            THEN Some([i \in DOMAIN Get(x.types) |-> WrapAll(Get(x.types)[i])])
                                            ELSE NoneOpt]
      [] x.t = "alias" -> [x EXCEPT !.type = WrapAll(x.type)]
      [] OTHER -> x)

RECURSIVE Strip(_)
Strip(x) ==
  CASE x.t = "custom" -> Strip(x.inner)
    [] x.t = "list" -> [x EXCEPT !.type = IF IsSome(x.type) THEN Some(Strip(Get(x.type))) ELSE NoneOpt,
                                 !.elems = IF IsSome(x.elems)
                                           THEN Some([i \in DOMAIN Get(x.elems) |->
                                                        IF IsEll(Get(x.elems)[i]) THEN VEllipsis ELSE Strip(Get(x.elems)[i])])
                                           ELSE NoneOpt]
    [] x.t = "dict" -> [x EXCEPT !.keys = IF IsSome(x.keys)
                                          THEN Some([i \in DOMAIN Get(x.keys) |->
                                                       IF IsEll(Get(x.keys)[i].key) THEN Get(x.keys)[i]
                                                       ELSE [Get(x.keys)[i] EXCEPT !.val = Strip(Get(x.keys)[i].val)]])
                                          ELSE NoneOpt]
    [] x.t = "any" -> [x EXCEPT !.types = IF IsSome(x.types)
                                          THEN Some([i \in DOMAIN Get(x.types) |-> Strip(Get(x.types)[i])])
                                          ELSE NoneOpt]
    [] x.t = "alias" -> [x EXCEPT !.type = Strip(x.type)]
    [] OTHER -> x

(***************************************************************************)
(* the machine                                                             *)
(***************************************************************************)
Trees == IF Rich THEN Level1 \cup Level2 \cup Focus \cup {SAlias("T", R_Dict), SAlias("T", SInt05)} \cup Comp
         ELSE DictsOver(CompSmall) \cup AnysOver(CompSmall) \cup ListsOver({SInt05, SStrAlpha}, {SInt1, SStrAlpha})
              \cup Focus \cup Rep1 \cup {SAlias("T", R_Dict), SAlias("T", SInt05)} \cup Comp

Init == s \in Trees /\ w = s /\ phase = "tree" /\ mask = "none"

WrapOne(path) == /\ phase = "tree" /\ phase' = "wrapped" /\ w' = WrapAt(s, path) /\ mask' = "one" /\ UNCHANGED s
WrapEvery == /\ phase = "tree" /\ phase' = "wrapped" /\ w' = WrapAll(s) /\ mask' = "all" /\ UNCHANGED s

Next == \/ \E path \in Positions(s) : WrapOne(path)
        \/ WrapEvery

GenVals(x) == {Gen(x, t, 0).v : t \in {t \in ConstTapes : Gen(x, t, 0).ok}}
ProbesC == UNION {{g} \cup Mutants(g, Unrelated, ExtraKeys) : g \in GenVals(s)}

StripErrs(errs) == [i \in DOMAIN errs |-> IF errs[i].kind = "schema_mismatch"
                                          THEN [errs[i] EXCEPT !.types = [j \in DOMAIN errs[i].types |-> Strip(errs[i].types[j])]]
                                          ELSE errs[i]]

IsWrapped == phase = "wrapped"

C16_StripRecoversTree == IsWrapped => Strip(w) = s
C16_SameErrors == IsWrapped => \A v \in ProbesC : StripErrs(Errors(w, v, <<>>, "val")) = Errors(s, v, <<>>, "val")
C16_SameGeneration == IsWrapped => \A t \in ConstTapes : Gen(w, t, 0) = Gen(s, t, 0)
C16_SameSubstitution ==
  IsWrapped => \A v \in ProbesC :
     LET a == Subst(w, v)
         b == Subst(s, v)
     IN  a.ok = b.ok /\ (a.ok => Strip(a.s) = b.s) /\ (~a.ok => a.exc = b.exc)

=============================================================================
