---------------------------- MODULE Trace_C10 ----------------------------
(***************************************************************************)
(* C10 on recorded executions of the real DSL.  One event per call:        *)
(*   recv     abstract receiver (built by replaying the chain)             *)
(*   call     the call made                                                *)
(*   exc      "" or the exception type name raised by the real call        *)
(*   unchanged  the real receiver printed and abstracted the same before   *)
(*              and after the call                                         *)
(*   usable   the returned object is a Schema that can be printed and        *)
(*            validated against without an exception                        *)
(*   rep      the real result could be abstracted                          *)
(*   result   Some(abstract result schema) when exc = "" and rep           *)
(*   hasfixed / fixed_ok   the real result carries a fixed value, and the  *)
(*              real validate(result, that value) reported no errors       *)
(*   fixed    Some(abstract fixed value) when representable                *)
(***************************************************************************)
EXTENDS D42Validate, D42TraceBase

KnownOverflow(c) == c.m = "regex" /\ Len(c.a) >= 1 /\ c.a[1].k = "badpat" /\ c.a[1].why = "overflow"
KnownUuidVersion(sch) == sch.t = "uuid4" /\ IsSome(sch.value) /\ Base(Get(sch.value)).k = "uuid"
                         /\ Base(Get(sch.value)).ver # 4

KnownNanValue(sch) == sch.t = "float" /\ IsSome(sch.value) /\ Base(Get(sch.value)).k = "float"
                      /\ Base(Get(sch.value)).sp = "nan"

Redeclares(e) == \E p \in DeclaredBy(e.recv.t, e.call) : IsDeclared(e.recv, p)

Verdict(e) ==
  IF e.exc # "" /\ e.exc # "DeclarationError"
  THEN "FAIL:exception_type:" \o (IF KnownOverflow(e.call) THEN "str.regex.overflow_error_leaks" ELSE "")
  ELSE IF ~e.unchanged THEN "FAIL:receiver_changed:"
  ELSE IF e.exc = "" /\ ~e.usable THEN "FAIL:returned_object_is_not_a_usable_schema:"
  ELSE IF e.exc = "" /\ Redeclares(e) THEN "FAIL:redeclare_accepted:"
  ELSE IF e.exc = "" /\ e.hasfixed /\ ~e.fixed_ok
  THEN "FAIL:fixed_value_rejected_by_validate:" \o
       (IF e.rep /\ KnownUuidVersion(Get(e.result)) THEN "uuid4.non_v4_value_accepted"
        ELSE IF e.rep /\ KnownNanValue(Get(e.result)) THEN "float.nan_value_rejects_itself" ELSE "")
  ELSE IF e.exc = "" /\ e.rep /\ IsSome(FixedValue(Get(e.result)))
          /\ ~Conforms(Get(e.result), Get(FixedValue(Get(e.result))))
  THEN "FAIL:fixed_value_nonconforming_by_spec:" \o
       (IF KnownUuidVersion(Get(e.result)) THEN "uuid4.non_v4_value_accepted"
        ELSE IF KnownNanValue(Get(e.result)) THEN "float.nan_value_rejects_itself" ELSE "")
  ELSE "OK"

Drift(e) ==
  /\ e.rep
  /\ LET r == Apply(e.recv, e.call) IN
     \/ r.ok # (e.exc = "")
     \/ r.ok /\ r.s # Get(e.result)
     \/ ~r.ok /\ r.exc # e.exc
     \/ e.exc = "" /\ e.hasfixed # IsSome(FixedValue(Get(e.result)))
     \/ e.exc = "" /\ e.hasfixed /\ IsSome(e.fixed) /\ e.fixed # FixedValue(Get(e.result))

TraceNext == TraceStep(Verdict, Drift)

=============================================================================
