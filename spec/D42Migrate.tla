---------------------------- MODULE D42Migrate ----------------------------
(***************************************************************************)
(* v1-to-v2 import migration (C19).                                        *)
(*                                                                         *)
(* A module is a sequence of *rows*; a row is the sequence of statements   *)
(* written on one logical line (joined by `;`), some of which span several *)
(* physical lines.  Statements:                                            *)
(*   [k |-> "imp", level, mod, names |-> Seq([n, as, to])]                 *)
(*        a from-import; `to` = Some(<<new module, new name>>) when        *)
(*        (mod, n) is a key of the mapping table, else <<>>                *)
(*   [k |-> "oth", id]     any other statement (id identifies its AST)     *)
(* Rewrite is defined on statements, as the property states it: every      *)
(* top-level, non-relative from-import is replaced by imports binding the  *)
(* same local names to the mapped targets; everything else is preserved.   *)
(***************************************************************************)
EXTENDS Integers, Sequences, FiniteSets, TLC

Imp(level, mod, names) == [k |-> "imp", level |-> level, mod |-> mod, names |-> names]
Oth(id) == [k |-> "oth", id |-> id]
Nm(n, as, to) == [n |-> n, as |-> as, to |-> to]

LocalOf(nm) == IF nm.as = "" THEN nm.n ELSE nm.as

\* the bindings a from-import makes: <<local name, module, name>>
Bindings(st) == {<<LocalOf(st.names[i]), st.mod, st.names[i].n>> : i \in DOMAIN st.names}

\* the bindings it must make after migration
MigratedBindings(st) ==
  IF st.level > 0 THEN Bindings(st)
  ELSE {LET nm == st.names[i] IN
        IF nm.to # <<>> THEN <<LocalOf(nm), nm.to[1][1], nm.to[1][2]>> ELSE <<LocalOf(nm), st.mod, nm.n>>
        : i \in DOMAIN st.names}

HasMappedName(st) == st.k = "imp" /\ st.level = 0 /\ \E i \in DOMAIN st.names : st.names[i].to # <<>>

\* a module as the sequence of its statements
RECURSIVE FlattenRows(_)
FlattenRows(rows) == IF rows = <<>> THEN <<>> ELSE Head(rows) \o FlattenRows(Tail(rows))

(***************************************************************************)
(* Statement-level comparison: consecutive imports are one "import block"  *)
(* (an import may legitimately be split into several); what is compared is *)
(* the sequence of blocks and other statements.                            *)
(***************************************************************************)
Block(binds) == [k |-> "block", binds |-> binds]

RECURSIVE Normalise(_, _, _)
\* stmts: Seq of [k |-> "oth", id] | [k |-> "binds", binds, level]
Normalise(stmts, i, acc) ==
  IF i > Len(stmts) THEN acc
  ELSE IF stmts[i].k = "oth" THEN Normalise(stmts, i + 1, Append(acc, stmts[i]))
  ELSE IF acc # <<>> /\ acc[Len(acc)].k = "block"
       THEN Normalise(stmts, i + 1, [acc EXCEPT ![Len(acc)] = Block(@.binds \cup stmts[i].binds)])
       ELSE Normalise(stmts, i + 1, Append(acc, Block(stmts[i].binds)))

AsBinds(st) == IF st.k = "oth" THEN st ELSE [k |-> "binds", binds |-> Bindings(st)]
AsMigrated(st) == IF st.k = "oth" THEN st ELSE [k |-> "binds", binds |-> MigratedBindings(st)]

\* what the output must be, statement-wise
Expected(stmts) == Normalise([i \in DOMAIN stmts |-> AsMigrated(stmts[i])], 1, <<>>)
Observed(stmts) == Normalise([i \in DOMAIN stmts |-> AsBinds(stmts[i])], 1, <<>>)

(***************************************************************************)
(* Operational model of rewrite_imports: whole physical lines lineno..      *)
(* end_lineno of each top-level non-relative from-import are replaced by    *)
(* the replacement lines, last import first.  On a row that holds nothing   *)
(* but one import this is the statement-level rewrite; a row shared with    *)
(* other statements loses them (single-line rows) or is cut mid-statement.  *)
(***************************************************************************)
IsTopImport(st) == st.k = "imp" /\ st.level = 0

ImplRow(row) ==
  LET imps == {i \in DOMAIN row : IsTopImport(row[i])}
  IN  IF imps = {} THEN [ok |-> TRUE, stmts |-> row]
      ELSE IF Len(row) = 1 THEN [ok |-> TRUE, stmts |-> row]          \* rewritten in place
      \* several statements share the physical line(s) of an import: the replacement of the
      \* first import is all that survives on single-line rows
      ELSE [ok |-> FALSE, stmts |-> <<row[CHOOSE i \in imps : \A j \in imps : i <= j]>>]

NothingToDo(stmts) == ~\E i \in DOMAIN stmts : IsTopImport(stmts[i])

=============================================================================
