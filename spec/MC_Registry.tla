---------------------------- MODULE MC_Registry ----------------------------
(***************************************************************************)
(* The extension tables as a machine: any sequence of at most MaxSteps     *)
(* registrations and visitor extensions.  Every reachable state is         *)
(* exported with the history that produced it; the harness replays the     *)
(* history on the real classes (fresh user classes per history, library    *)
(* classes restored afterwards) and observes *all* queries -- every name   *)
(* of the facade, every (schema class, visitor) dispatch.                  *)
(***************************************************************************)
EXTENDS D42Registry

CONSTANTS MaxSteps,
          ActScope      \* "all" | "formatter"

VARIABLES reg, hist

vars == <<reg, hist>>

Init == reg = InitReg /\ hist = <<>>

Do(act) == /\ Len(hist) < MaxSteps
           /\ reg' = Step(reg, act).st
           /\ hist' = Append(hist, act)

Next == \E act \in ActsFor(ActScope) : Do(act)

Last == hist'[Len(hist')]

\* a registration touches one name of the facade and nothing else
RegistrationIsLocal ==
  [][Last.a = "register" =>
       /\ reg'.own = reg.own
       /\ \A n \in Names \ {Last.name} : AccessOut(reg', n) = AccessOut(reg, n)
       /\ \A c \in Instantiable, v \in Visitors : DispatchOut(reg', c, v) = DispatchOut(reg, c, v)]_vars

\* an extension never touches the facade, only adds, and only to the first base
ExtensionIsLocal ==
  [][Last.a = "extend" =>
       /\ reg'.facade = reg.facade
       /\ \A h \in Holders : reg.own[h] \subseteq reg'.own[h]
       /\ \A h \in Holders \ {Last.bases[1]} : reg'.own[h] = reg.own[h]]_vars

\* whatever else has been registered or extended, a custom type with all four hooks is
\* dispatched to its hooks by the four library visitors (the premise of C16), and a built-in
\* type is dispatched to the library's own visit method unless that very method was replaced
CompleteCustomTypeAlwaysDispatches ==
  \A v \in LibVisitors : DispatchOut(reg, "CFull", v) = "hook:" \o OpOf(v)

BuiltinsKeepTheirVisit ==
  \A c \in BuiltinCls, v \in LibVisitors :
     DispatchOut(reg, c, v) # "builtin" => Replaced(reg, c, v)

\* a formatter plug-in can replace what a message says only by defining the public format method
\* itself: its private helpers stay its own (C03: the rendered message names the path)
PrivateFormatterHelpersStayPrivate ==
  RenderOut(reg) # "default" => "format_type_error" \in reg.own["Formatter"]

\* the history explains the state
StateIsRunOfHistory == reg = Run(InitReg, hist)

=============================================================================
