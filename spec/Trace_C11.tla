---------------------------- MODULE Trace_C11 ----------------------------
(***************************************************************************)
(* C11 on recorded executions: one event per set of refinements, holding   *)
(* the outcome of every permutation on the real DSL.                       *)
(*   ty, base (Some(value call) | <<>>), refs (sequence of calls)          *)
(*   perms: sequence of index sequences; outs[j] the outcome of perms[j]:  *)
(*     [exc |-> "" | type name, rep |-> BOOLEAN, result |-> Some(schema)]  *)
(*   eq_all: every pair of successful results compared equal with the real *)
(*           ==, and no pair compared unequal with the real !=             *)
(***************************************************************************)
EXTENDS D42Validate, D42TraceBase

KnownRegexMaxLen(e) ==
  /\ \E j \in DOMAIN e.refs : e.refs[j].m = "regex"
  /\ \E j \in DOMAIN e.refs : LET c == e.refs[j] IN
        c.m = "len" /\ (IsEll(Arg(c, 1)) \/ (Len(c.a) = 2 /\ ~IsEll(Arg(c, 2))))

Sig(e) == IF KnownRegexMaxLen(e) THEN "str.regex.guard_ignores_max_len" ELSE ""

AllOk(e) == \A j \in DOMAIN e.outs : e.outs[j].exc = ""
NoneOk(e) == \A j \in DOMAIN e.outs : e.outs[j].exc # ""

Verdict(e) ==
  IF \E j \in DOMAIN e.outs : e.outs[j].exc \notin {"", "DeclarationError"}
  THEN "FAIL:exception_type:"
  ELSE IF ~AllOk(e) /\ ~NoneOk(e) THEN "FAIL:order_dependent_acceptance:" \o Sig(e)
  ELSE IF AllOk(e) /\ ~e.eq_all THEN "FAIL:order_dependent_result:" \o Sig(e)
  ELSE "OK"

BaseOf(e) == IF IsSome(e.base) THEN Apply(Bare(e.ty), Get(e.base)).s ELSE Bare(e.ty)
ChainOf(e, j) == [n \in DOMAIN e.perms[j] |-> e.refs[e.perms[j][n]]]

Drift(e) ==
  \/ AllOk(e) /\ (\A j \in DOMAIN e.outs : e.outs[j].rep)
     /\ \E j \in DOMAIN e.outs : e.outs[j].result # e.outs[1].result      \* == equal, props not identical
  \/ \E j \in DOMAIN e.outs :
     LET r == ApplyChain(BaseOf(e), ChainOf(e, j)) IN
     \/ r.ok # (e.outs[j].exc = "")
     \/ r.ok /\ e.outs[j].rep /\ Some(r.s) # e.outs[j].result

TraceNext == TraceStep(Verdict, Drift)

=============================================================================
