---------------------------- MODULE D42Meaning ----------------------------
(***************************************************************************)
(* The meaning of a schema, stated declaratively from the documentation    *)
(* and the property texts: Conforms(s, v) says whether Python value v is a *)
(* member of the set of values schema s denotes.  It is written without    *)
(* reference to the validator's control flow (no error lists, no windows   *)
(* ranked by error count, no early returns); D42Validate.Errors is the     *)
(* operational model and TLC checks that the two agree.                    *)
(***************************************************************************)
EXTENDS D42Declare

(***************************************************************************)
(* float comparisons over the extended line (inf/-inf); nan is unordered   *)
(***************************************************************************)
FLess(a, b) ==      \* Python a < b for float-like a, b
  IF a.k = "float" /\ a.sp = "nan" THEN FALSE
  ELSE IF b.k = "float" /\ b.sp = "nan" THEN FALSE
  ELSE LET ai == a.k = "float" /\ a.sp # "fin"
           bi == b.k = "float" /\ b.sp # "fin"
       IN  IF ai /\ bi THEN a.sp = "-inf" /\ b.sp = "inf"
           ELSE IF ai THEN a.sp = "-inf"
           ELSE IF bi THEN b.sp = "inf"
           ELSE NumQ(a) < NumQ(b)

\* round-half-even of q/100 * 10^p, for p in 1..2, as an integer
Pow10(p) == IF p = 0 THEN 1 ELSE IF p = 1 THEN 10 ELSE IF p = 2 THEN 100 ELSE 1000
FloorDiv(a, b) == a \div b            \* TLA+ \div floors (b > 0)
RoundHalfEven(num, den) ==            \* round(num/den), den > 0
  LET fl == FloorDiv(num, den)
      rem2 == 2 * (num - fl * den)
  IN  IF rem2 < den THEN fl
      ELSE IF rem2 > den THEN fl + 1
      ELSE IF fl % 2 = 0 THEN fl ELSE fl + 1
TruncDiv(num, den) ==                 \* int(num/den): toward zero, den > 0
  IF num >= 0 THEN num \div den ELSE -((-num) \div den)
\* q is in 1/100 units: q/100 * 10^p = q * 10^p / 100
ScaledRound(q, p) == RoundHalfEven(q * Pow10(p), 100)

\* float value equality as the schema means it
FloatValueEq(v, expected, precision) ==
  IF v.sp # "fin" \/ expected.sp # "fin" THEN v.sp = expected.sp /\ v.sp # "nan"
  ELSE IF IsNone(precision) THEN v.q = expected.q
  ELSE ScaledRound(v.q, IntOf(Get(precision))) = ScaledRound(expected.q, IntOf(Get(precision)))

SizeOK(s, n) ==
  /\ IsSome(s.len) => n = IntOf(Get(s.len))
  /\ IsSome(s.min_len) => n >= IntOf(Get(s.min_len))
  /\ IsSome(s.max_len) => n <= IntOf(Get(s.max_len))

RECURSIVE Conforms(_, _)

WindowConforms(elems, items, start) ==     \* elems against items[start+1 .. start+Len(elems)]
  /\ start + Len(elems) <= Len(items)
  /\ \A i \in DOMAIN elems : Conforms(elems[i], items[start + i])

ElemsConform(elems, items) ==
  LET form == ListForm(elems)
      conc == Concrete(elems)
      k == Len(conc)
      n == Len(items)
  IN  CASE form = "exact" -> n = k /\ WindowConforms(conc, items, 0)
        [] form = "head" -> WindowConforms(conc, items, 0)
        [] form = "tail" -> n >= k /\ WindowConforms(conc, items, n - k)
        [] form = "body" -> \E start \in 0..n : WindowConforms(conc, items, start)

DictConforms(keys, pairs) ==
  /\ \A i \in DOMAIN keys :
        IsEll(keys[i].key) \/
        IF DictHas(pairs, keys[i].key)
        THEN Conforms(keys[i].val, DictGet(pairs, keys[i].key))
        ELSE keys[i].opt
  /\ IsRelaxed(keys) \/ \A j \in DOMAIN pairs : KeysHas(keys, pairs[j].key)

Conforms(s, v0) ==
  LET v == Base(v0) IN
  CASE s.t = "none" -> v.k = "none"
    [] s.t = "bool" -> IsA(v0, "bool") /\ (IsSome(s.value) => VEq(v, Get(s.value)))
    [] s.t = "int" ->
         /\ IsA(v0, "int")
         /\ IsSome(s.value) => VEq(v, Get(s.value))
         /\ IsSome(s.min) => ~NumLt(v, Base(Get(s.min)))
         /\ IsSome(s.max) => ~NumLt(Base(Get(s.max)), v)
    [] s.t = "float" ->
         /\ IsA(v0, "float")
         /\ IsSome(s.value) => FloatValueEq(v, Base(Get(s.value)), s.precision)
         /\ IsSome(s.min) => ~FLess(v, Base(Get(s.min)))
         /\ IsSome(s.max) => ~FLess(Base(Get(s.max)), v)
    [] s.t = "str" ->
         /\ IsA(v0, "str")
         /\ IsSome(s.value) => v.s = Get(s.value).s
         /\ IsSome(s.pattern) => RSearch(Get(s.pattern).rx, v.s)
         /\ SizeOK(s, Len(v.s))
         /\ IsSome(s.substr) => IsSubstr(Get(s.substr).s, v.s)
         /\ IsSome(s.alphabet) => AllIn(v.s, Get(s.alphabet).s)
    [] s.t = "bytes" -> IsA(v0, "bytes") /\ (IsSome(s.value) => VEq(v, Get(s.value)))
    [] s.t = "uuid4" -> /\ IsA(v0, "uuid") /\ v.ver = 4
                        /\ IsSome(s.value) => VEq(v, Get(s.value))
    [] s.t = "datetime" -> IsA(v0, "datetime") /\ (IsSome(s.value) => VEq(v, Get(s.value)))
    [] s.t = "date" -> IsA(v0, "date") /\ (IsSome(s.value) => VEq(v, Get(s.value)))
    [] s.t = "list" ->
         /\ IsA(v0, "list")
         /\ SizeOK(s, Len(v.items))
         /\ IsSome(s.type) => \A i \in DOMAIN v.items : Conforms(Get(s.type), v.items[i])
         /\ (IsNone(s.type) /\ IsSome(s.elems)) => ElemsConform(Get(s.elems), v.items)
    [] s.t = "dict" ->
         /\ IsA(v0, "dict")
         /\ IsSome(s.keys) => DictConforms(Get(s.keys), v.pairs)
    [] s.t = "any" -> IsNone(s.types) \/ \E i \in DOMAIN Get(s.types) : Conforms(Get(s.types)[i], v0)
    [] s.t = "alias" -> Conforms(s.type, v0)
    [] s.t = "custom" -> Conforms(s.inner, v0)

(***************************************************************************)
(* Fixed values: a schema "carries a fixed value" when generation must     *)
(* return one specific value.                                              *)
(***************************************************************************)
RECURSIVE FixedValue(_)
\* Some(v) | NoneOpt
FixedValue(s) ==
  CASE s.t \in {"bool", "int", "float", "str", "bytes", "uuid4", "datetime", "date"} -> s.value
    [] s.t = "none" -> Some(VNone)
    [] s.t = "list" ->
         IF IsSome(s.elems) /\ ~HasEll(Get(s.elems))
            /\ \A i \in DOMAIN Get(s.elems) : IsSome(FixedValue(Get(s.elems)[i]))
         THEN Some(VList([i \in DOMAIN Get(s.elems) |-> Get(FixedValue(Get(s.elems)[i]))]))
         ELSE NoneOpt
    [] OTHER -> NoneOpt

=============================================================================
