---------------------------- MODULE D42 ----------------------------
(***************************************************************************)
(* The top-level machine: d42 as a transition system over                  *)
(*                                                                         *)
(*   pool   the schemas a program has built so far (append-only)           *)
(*   heap   containers owned by the caller (lists / dicts of schemas or of *)
(*          plain values) that were, or will be, handed to d42             *)
(*   hist   the operations executed, with their arguments and outcomes     *)
(*                                                                         *)
(* Every public operation is an action: declaration (DeclareBare, Refine), *)
(* building containers from caller-owned objects (ListFromHeap,            *)
(* DictFromHeap, FromNativeHeap), combinators (Union, Add, MakeRequired,   *)
(* Alias), substitution (SubstituteHeap), the observers (Validate,         *)
(* Represent, Fake, Eq, Index), and the one thing only the caller may do:  *)
(* MutateHeap.  C07 says: no action changes what any pooled schema means,  *)
(* no action except MutateHeap changes the heap, and repeating an          *)
(* operation gives the same outcome.                                       *)
(*                                                                         *)
(* A pool entry is [sch, alias]: alias = Some(h) models a list schema that *)
(* kept the caller's list object heap[h] instead of a copy                 *)
(* (DEV_ListCallAliases): its elements are whatever heap[h] holds *now*.   *)
(***************************************************************************)
EXTENDS D42Represent

CONSTANTS MaxPool, MaxHeap, MaxSteps,
          Narrow     \* BOOLEAN: small argument universes, so that histories concentrate on caller-owned containers

VARIABLES pool, heap, hist

vars == <<pool, heap, hist>>

(***************************************************************************)
(* heap objects                                                            *)
(*   [hk |-> "slist", items |-> Seq(pool index | 0 for `...`)]             *)
(*   [hk |-> "sdict", pairs |-> Seq([key, ref (pool index | 0 | -1), opt])] *)
(*   [hk |-> "value", v |-> plain list/dict value]                         *)
(***************************************************************************)
Entry(sch, alias) == [sch |-> sch, alias |-> alias]

RECURSIVE ObsAt(_, _, _)
\* what pool entry i means, given the pool and the current heap
ElemsFromHeap(h, p, hp) == [j \in DOMAIN hp[h].items |->
                              IF hp[h].items[j] = 0 THEN VEllipsis ELSE ObsAt(hp[h].items[j], p, hp)]
ObsAt(i, p, hp) ==
  IF IsSome(p[i].alias) THEN [p[i].sch EXCEPT !.elems = Some(ElemsFromHeap(Get(p[i].alias), p, hp))]
  ELSE p[i].sch
Obs(i) == ObsAt(i, pool, heap)

ListArgOf(h) == VList([j \in DOMAIN heap[h].items |->
                         IF heap[h].items[j] = 0 THEN VEllipsis ELSE ASchema(Obs(heap[h].items[j]))])
DictArgOf(h) == VDict([j \in DOMAIN heap[h].pairs |->
                         LET pr == heap[h].pairs[j] IN
                         IF pr.ref = 0 THEN KV(VEllipsis, VEllipsis)
                         ELSE KV(IF pr.opt THEN VOptional(pr.key) ELSE pr.key,
                                 ASchema(IF pr.ref = -1 THEN BareInt ELSE Obs(pr.ref)))])     \* -1: a fresh schema.int

Record(op) == hist' = Append(hist, op)
Push(sch, alias) == pool' = Append(pool, Entry(sch, alias))

Room == Len(pool) < MaxPool /\ Len(hist) < MaxSteps
Steps == Len(hist) < MaxSteps

(***************************************************************************)
(* argument universes (small on purpose: the state space is the histories) *)
(***************************************************************************)
BareTypes == IF Narrow THEN {"int", "dict"} ELSE {"int", "str", "list", "dict", "any"}
A1 == 97
RefineCalls(t) ==
  IF Narrow THEN (IF t = "list" THEN {Call("len", <<VInt(2)>>)} ELSE IF t = "int" THEN {Call("value", <<VInt(1)>>)} ELSE {}) ELSE
  CASE t = "int" -> {Call("value", <<VInt(1)>>), Call("min", <<VInt(0)>>), Call("max", <<VInt(5)>>),
                     Call("min", <<VStr(<<A1>>)>>)}
    [] t = "str" -> {Call("value", <<VStr(<<A1, A1 + 1>>)>>), Call("len", <<VInt(2)>>),
                     Call("alphabet", <<VStr(<<A1, A1 + 1>>)>>), Call("len", <<VInt(-1), VNone>>)}
    [] t = "list" -> {Call("len", <<VInt(2)>>), Call("len", <<VInt(1), VEllipsis>>), Call("len", <<VStr(<<A1>>)>>)}
    [] OTHER -> {}
KeyA == VStr(<<A1>>)
KeyB == VStr(<<A1 + 1>>)
PlainValues == IF Narrow THEN { VList(<<VInt(1)>>), VDict(<<KV(KeyA, VInt(1))>>) } ELSE
               \* values that are equal under Python's == although of different kinds sit side by side:
               \* a conversion that remembers earlier inputs by equality would confuse them
               { VList(<<VBool(TRUE)>>), VList(<<VFloat(100)>>), VDict(<<KV(KeyA, VFloat(0))>>),
                 \* a partial value with the `...: ...` placeholder (substitution reads it, must not consume it)
                 VDict(<<KV(KeyA, VInt(1)), KV(VEllipsis, VEllipsis)>>),
                 VDict(<<KV(KeyA, VBool(FALSE))>>),
                 VList(<<VInt(1), VStr(<<A1, A1 + 1>>)>>), VList(<<>>),
                 VDict(<<KV(KeyA, VInt(1))>>), VDict(<<KV(KeyA, VInt(1)), KV(KeyB, VList(<<VInt(1)>>))>>) }

(***************************************************************************)
(* actions                                                                 *)
(***************************************************************************)
DeclareBare(t) ==
  /\ Room
  /\ Push(Bare(t), NoneOpt)
  /\ Record([op |-> "bare", t |-> t, out |-> "ok"])
  /\ UNCHANGED heap

Refine(i, c) ==
  LET r == Apply(Obs(i), c) IN
  /\ Room
  /\ IF r.ok THEN Push(r.s, pool[i].alias) ELSE UNCHANGED pool      \* a derived schema shares the list
  /\ Record([op |-> "refine", i |-> i, c |-> c, out |-> IF r.ok THEN "ok" ELSE r.exc])
  /\ UNCHANGED heap

NewSList(items) ==
  /\ Len(heap) < MaxHeap /\ Steps
  /\ heap' = Append(heap, [hk |-> "slist", items |-> items])
  /\ Record([op |-> "new_slist", items |-> items, out |-> "ok"])
  /\ UNCHANGED pool

NewSDict(pairs) ==
  /\ Len(heap) < MaxHeap /\ Steps
  /\ heap' = Append(heap, [hk |-> "sdict", pairs |-> pairs])
  /\ Record([op |-> "new_sdict", pairs |-> pairs, out |-> "ok"])
  /\ UNCHANGED pool

NewValue(v) ==
  /\ Len(heap) < MaxHeap /\ Steps
  /\ heap' = Append(heap, [hk |-> "value", v |-> v])
  /\ Record([op |-> "new_value", v |-> v, out |-> "ok"])
  /\ UNCHANGED pool

ListFromHeap(h) ==
  LET r == Apply(BareList, Call("value", <<ListArgOf(h)>>)) IN
  /\ Room /\ heap[h].hk = "slist"
  /\ IF r.ok THEN Push(r.s, IF DEV_ListCallAliases THEN Some(h) ELSE NoneOpt) ELSE UNCHANGED pool
  /\ Record([op |-> "list_from", h |-> h, out |-> IF r.ok THEN "ok" ELSE r.exc])
  /\ UNCHANGED heap

DictFromHeap(h) ==
  LET r == Apply(BareDict, Call("value", <<DictArgOf(h)>>)) IN
  /\ Room /\ heap[h].hk = "sdict"
  /\ IF r.ok THEN Push(r.s, NoneOpt) ELSE UNCHANGED pool
  /\ Record([op |-> "dict_from", h |-> h, out |-> IF r.ok THEN "ok" ELSE r.exc])
  /\ UNCHANGED heap

FromNativeHeap(h) ==
  LET r == FromNative(heap[h].v) IN
  /\ Room /\ heap[h].hk = "value"
  /\ IF r.ok THEN Push(r.s, NoneOpt) ELSE UNCHANGED pool
  /\ Record([op |-> "from_native", h |-> h, out |-> IF r.ok THEN "ok" ELSE r.exc])
  /\ UNCHANGED heap

SubstituteHeap(i, h) ==
  LET r == Subst(Obs(i), heap[h].v) IN
  /\ Room /\ heap[h].hk = "value"
  /\ IF r.ok THEN Push(r.s, NoneOpt) ELSE UNCHANGED pool
  /\ Record([op |-> "substitute", i |-> i, h |-> h, out |-> IF r.ok THEN "ok" ELSE r.exc])
  /\ UNCHANGED heap

UnionOf(i, j) ==
  LET r == Union(Obs(i), Obs(j)) IN
  /\ Room
  /\ Push(r.s, NoneOpt)
  /\ Record([op |-> "union", i |-> i, j |-> j, out |-> "ok"])
  /\ UNCHANGED heap

AddOf(i, j) ==
  LET r == Add(Obs(i), Obs(j)) IN
  /\ Room /\ Obs(i).t = "dict"
  /\ IF r.ok THEN Push(r.s, NoneOpt) ELSE UNCHANGED pool
  /\ Record([op |-> "add", i |-> i, j |-> j, out |-> IF r.ok THEN "ok" ELSE r.exc])
  /\ UNCHANGED heap

MakeRequiredOf(i) ==
  LET r == MakeRequired(Obs(i), NoneOpt) IN
  /\ Room
  /\ IF r.ok THEN Push(r.s, NoneOpt) ELSE UNCHANGED pool
  /\ Record([op |-> "make_required", i |-> i, out |-> IF r.ok THEN "ok" ELSE r.exc])
  /\ UNCHANGED heap

\* make_required(schema, [key]) with an explicit key list
MakeRequiredKeyOf(i) ==
  LET r == MakeRequired(Obs(i), Some(<<KeyA>>)) IN
  /\ Room
  /\ IF r.ok THEN Push(r.s, NoneOpt) ELSE UNCHANGED pool
  /\ Record([op |-> "make_required_key", i |-> i, out |-> IF r.ok THEN "ok" ELSE r.exc])
  /\ UNCHANGED heap

AliasOf(i) ==
  /\ Room
  /\ Push(SAlias("T", Obs(i)), NoneOpt)
  /\ Record([op |-> "alias", i |-> i, out |-> "ok"])
  /\ UNCHANGED heap

\* observers: the outcome is recorded, nothing changes
ValidateOp(i, h) ==
  /\ Steps /\ heap[h].hk = "value"
  /\ Record([op |-> "validate", i |-> i, h |-> h,
             out |-> IF ValidateOutcome(Obs(i), heap[h].v).errs = <<>> THEN "ok" ELSE "errors"])
  /\ UNCHANGED <<pool, heap>>

RepresentOp(i) ==
  /\ Steps
  /\ Record([op |-> "represent", i |-> i, out |-> "ok"])
  /\ UNCHANGED <<pool, heap>>

FakeOp(i, sel) ==
  /\ Steps
  /\ Record([op |-> "fake", i |-> i, tape |-> <<sel>>, out |-> IF Gen(Obs(i), <<sel>>, 0).ok THEN "ok" ELSE "raised"])
  /\ UNCHANGED <<pool, heap>>

EqOp(i, j) ==
  /\ Steps
  /\ Record([op |-> "eq", i |-> i, j |-> j, out |-> IF SEq(Obs(i), Obs(j)) THEN "equal" ELSE "unequal"])
  /\ UNCHANGED <<pool, heap>>

\* the caller edits an object it owns -- after it may have been handed to d42
MutateHeap(h, edit) ==
  /\ Steps
  /\ heap' = [heap EXCEPT ![h] =
       CASE heap[h].hk = "slist" ->
              [@ EXCEPT !.items = IF edit = "append" THEN Append(@, 0)
                                  ELSE IF edit = "pop" /\ Len(@) > 0 THEN SubSeq(@, 1, Len(@) - 1) ELSE @]
         [] heap[h].hk = "sdict" ->
              [@ EXCEPT !.pairs = IF edit = "pop" /\ Len(@) > 0 THEN SubSeq(@, 1, Len(@) - 1) ELSE @]
         [] heap[h].hk = "value" ->
              [@ EXCEPT !.v = IF @.k = "list"
                              THEN VList(IF edit = "append" THEN Append(@.items, VInt(7))
                                         ELSE IF Len(@.items) > 0 THEN SubSeq(@.items, 1, Len(@.items) - 1) ELSE @.items)
                              ELSE VDict(IF edit = "append" THEN (IF DictHas(@.pairs, VStr(<<122>>)) THEN @.pairs
                                                                   ELSE Append(@.pairs, KV(VStr(<<122>>), VInt(7))))
                                         ELSE IF Len(@.pairs) > 0 THEN SubSeq(@.pairs, 1, Len(@.pairs) - 1) ELSE @.pairs)]]
  /\ Record([op |-> "mutate", h |-> h, edit |-> edit, out |-> "ok"])
  /\ UNCHANGED pool

PoolIdx == DOMAIN pool
HeapIdx == DOMAIN heap
SListShapes == {<<>>} \cup {<<i>> : i \in PoolIdx} \cup {<<i, 0>> : i \in PoolIdx} \cup {<<i, j>> : i, j \in PoolIdx}
SDictShapes == {<<[key |-> KeyA, ref |-> -1, opt |-> TRUE]>>,          \* needs nothing from the pool
                 <<[key |-> KeyA, ref |-> -1, opt |-> TRUE], [key |-> VEllipsis, ref |-> 0, opt |-> FALSE]>>}
               \cup {<<[key |-> KeyA, ref |-> i, opt |-> FALSE]>> : i \in PoolIdx}
               \cup {<<[key |-> KeyA, ref |-> i, opt |-> TRUE], [key |-> VEllipsis, ref |-> 0, opt |-> FALSE]>> : i \in PoolIdx}

Init == pool = <<>> /\ heap = <<>> /\ hist = <<>>

Next ==
  \/ \E t \in BareTypes : DeclareBare(t)
  \/ \E i \in PoolIdx : \E c \in RefineCalls(Obs(i).t) : Refine(i, c)
  \/ \E items \in SListShapes : NewSList(items)
  \/ \E pairs \in SDictShapes : NewSDict(pairs)
  \/ \E v \in PlainValues : NewValue(v)
  \/ \E h \in HeapIdx : ListFromHeap(h) \/ DictFromHeap(h) \/ FromNativeHeap(h)
  \/ \E i \in PoolIdx, h \in HeapIdx : SubstituteHeap(i, h) \/ ValidateOp(i, h)
  \/ ~Narrow /\ \E i, j \in PoolIdx : UnionOf(i, j) \/ AddOf(i, j) \/ EqOp(i, j)
  \/ ~Narrow /\ \E i \in PoolIdx : MakeRequiredOf(i) \/ MakeRequiredKeyOf(i) \/ AliasOf(i) \/ RepresentOp(i)
  \/ ~Narrow /\ \E i \in PoolIdx, sel \in {"lo", "hi"} : FakeOp(i, sel)
  \/ \E h \in HeapIdx, edit \in {"append", "pop"} : MutateHeap(h, edit)

Spec == Init /\ [][Next]_vars

(***************************************************************************)
(* C07                                                                     *)
(***************************************************************************)
\* the pool is append-only and no step changes what an existing entry means
SchemasAreImmutableStrict ==
  [][/\ Len(pool') >= Len(pool)
     /\ \A i \in DOMAIN pool : ObsAt(i, pool', heap') = ObsAt(i, pool, heap)]_vars

\* the same, leaving out entries that share a caller's list while that finding is open
SchemasAreImmutable ==
  [][/\ Len(pool') >= Len(pool)
     /\ \A i \in DOMAIN pool : \/ ObsAt(i, pool', heap') = ObsAt(i, pool, heap)
                                \/ (DEV_ListCallAliases /\ IsSome(pool[i].alias))]_vars

\* only the caller changes caller-owned containers
LastOp == hist[Len(hist)]
OperationsArePure ==
  [][(heap' # heap) => (LET o == hist'[Len(hist')] IN
                         o.op \in {"mutate", "new_slist", "new_sdict", "new_value"}
                         /\ (o.op = "mutate" => Len(heap') = Len(heap))
                         /\ (o.op # "mutate" => SubSeq(heap', 1, Len(heap)) = heap))]_vars

\* the history is the behaviour: kept out of the fingerprint of exhaustive runs
ViewNoHist == <<pool, heap, Len(hist)>>

=============================================================================
