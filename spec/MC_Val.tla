---------------------------- MODULE MC_Val ----------------------------
(***************************************************************************)
(* The generate / validate machine (C01, C02, C03, C08).                   *)
(*                                                                         *)
(*   build   : a schema is declared -- either through DSL calls starting   *)
(*             from a bare type (every chain of <= Depth accepted calls),  *)
(*             or chosen from the container universe                       *)
(*   observe : fake(schema) is run under one tape of draw outcomes; the    *)
(*             state records the generator's outcome g                     *)
(* In every observed state the properties are evaluated for the schema,    *)
(* the generated value and every probe value derived from it.  Observed    *)
(* states are exported: (schema, tape, predicted outcome) is one test case *)
(* for the conformance harness.                                            *)
(***************************************************************************)
EXTENDS D42Findings, D42SchemaUniverse

CONSTANTS Depth,        \* max DSL calls for scalar schemas
          Types,        \* scalar types built through the DSL machine
          UseContainers,\* BOOLEAN: include the container universe
          TapeSet       \* "const" | "two" | "three"

VARIABLES s, src, chain, phase, tape, g

vars == <<s, src, chain, phase, tape, g>>

TapeUniverse == CASE TapeSet = "const" -> ConstTapes
                  [] TapeSet = "two" -> Tapes2
                  [] TapeSet = "three" -> Tapes3

NoG == [ok |-> FALSE, exc |-> "none", p |-> 0]

Init == /\ \/ src = "dsl" /\ s \in {Bare(t) : t \in Types}
           \/ src = "universe" /\ UseContainers /\ s \in Containers
        /\ chain = <<>>
        /\ phase = "build"
        /\ tape = <<>>
        /\ g = NoG

Declare(c) ==
  /\ Len(chain) < Depth
  /\ Apply(s, c).ok
  /\ s' = Apply(s, c).s
  /\ chain' = Append(chain, c)
  /\ UNCHANGED <<src, phase, tape, g>>

Observe(t) ==
  /\ phase = "build"
  /\ phase' = "obs"
  /\ tape' = t
  /\ g' = Gen(s, t, 0)
  /\ UNCHANGED <<s, src, chain>>

Next == \/ phase = "build" /\ src = "dsl" /\ \E c \in Calls(s.t) : Declare(c)
        \/ \E t \in TapeUniverse : Observe(t)

\* chains that reach the same schema are one state
View == <<s, phase, tape>>

(***************************************************************************)
(* C01  generated data validates                                           *)
(***************************************************************************)
C01_GeneratedConforms ==
  (phase = "obs" /\ Sat(s)) =>
     \/ g.ok /\ Conforms(s, g.v)
     \/ ~g.ok /\ g.exc = "UNMODELLED"
     \/ KnownGen(s)

\* the validator model accepts what the generator model produces (ties C01 to validate())
C01_GeneratedValidates ==
  (phase = "obs" /\ g.ok) => (ValidateOutcome(s, g.v).errs = <<>>) = Conforms(s, g.v)

(***************************************************************************)
(* C02 / C03 / C08 over the probe values of the generated value            *)
(***************************************************************************)
Seed == IF g.ok THEN g.v ELSE VNone

C02_VerdictIsMeaning ==
  phase = "obs" =>
     \A v \in ProbesPlain(Seed) :
        LET o == ValidateOutcome(s, v) IN IsNone(o.exc) /\ ((o.errs = <<>>) = Conforms(s, v))

AlphabetPathKnown(e) == DEV_AlphabetErrorRootPath /\ e.kind = "alphabet"

C03_ErrorsAreTrue ==
  phase = "obs" =>
     \A v \in ProbesPlain(Seed) :
        LET errs == ValidateOutcome(s, v).errs IN
        \A i \in DOMAIN errs : ErrorTrue(errs[i], v) \/ AlphabetPathKnown(errs[i])


C08_Total ==
  phase = "obs" =>
     \A v \in ProbesZoo(Seed) :
        LET o == ValidateOutcome(s, v) IN
        \/ IsNone(o.exc) /\ ((o.errs = <<>>) = Conforms(s, v))
        \/ DEV_FloatRoundRaises /\ FloatRoundKnown(s)

=============================================================================
