---------------------------- MODULE MC_Result ----------------------------
(* every history of at most MaxSteps operations on ValidationResult objects and caller-held lists *)
EXTENDS D42Result

VARIABLES st, hist
vars == <<st, hist>>

Init == st = InitRes /\ hist = <<>>
Next == /\ Len(hist) < MaxSteps
        /\ \E act \in Acts(st) : Enabled(st, act) /\ st' = Step(st, act) /\ hist' = Append(hist, act)

IsPrefix(s, t) == Len(s) <= Len(t) /\ SubSeq(t, 1, Len(s)) = s
Last == hist'[Len(hist')]

\* errors are only ever appended, in the order given, to whatever list the result holds
AppendOnly == [][\A c \in DOMAIN st.cells : IsPrefix(st.cells[c], st'.cells[c])]_vars
\* adding nothing changes nothing
EmptyBatchIsNoOp == [][(Last.a = "add_errors" /\ Last.b = <<>>) => st'.cells = st.cells]_vars
\* a result that shares its list with nobody is affected by operations on itself only
Isolation ==
  [][\A r \in DOMAIN st.results :
       LET alone == Cardinality({x \in DOMAIN st.results : st.results[x] = st.results[r]}) = 1
           unshared == \A l \in DOMAIN st.lists : st.lists[l] # st.results[r]
           touched == Last.r = r /\ Last.a \in {"add_error", "add_errors", "add_errors_list", "get_errors"}
       IN  (alone /\ unshared /\ ~touched) => ErrorsOf(st', r) = ErrorsOf(st, r)]_vars
StateIsRun == st = Run(InitRes, hist)

=============================================================================
