---------------------------- MODULE Trace_Eq ----------------------------
(***************************************************************************)
(* C15 on recorded executions of the real == / !=.  One event per schema   *)
(* `a` of the universe (every other schema of the universe is compared     *)
(* with it on the real objects):                                           *)
(*   refl        a == a                                                    *)
(*   rebuilt_eq  an independent build of the same declaration is ==, not !=*)
(*   ne_ok       for every b: (a != b) is the negation of (a == b)         *)
(*   sym_ok      for every b: (a == b) = (b == a)                          *)
(*   trans_ok    for every b, c: a == b and b == c imply a == c            *)
(*   value_ok    for every probe value w: (a == w) = validate(a, w) ok     *)
(*   stable      the row of the relation is the same after every schema    *)
(*               has been put to every public use (printing the schema and *)
(*               its props, generation, validation, helpers, operators)    *)
(*   equals      the other schemas b with a == b, each with the real       *)
(*               verdicts of a and b on probe values [w, ok_a, ok_b]       *)
(***************************************************************************)
EXTENDS D42Equal, D42TraceBase

CONSTANT Depth

RECURSIVE HasBareAnyMemberT(_)
HasBareAnyMemberT(x) == \E y \in SubSchemas(x) : y.t = "any" /\ IsNone(y.types)
Sig(e, b) == IF HasBareAnyMemberT(e.a) \/ HasBareAnyMemberT(b) THEN "eq.marker_vs_any_schema" ELSE ""

RECURSIVE FirstDiffering(_, _)
FirstDiffering(e, j) ==
  IF j > Len(e.equals) THEN "OK"
  ELSE IF \E p \in DOMAIN e.equals[j].probes : e.equals[j].probes[p].ok_a # e.equals[j].probes[p].ok_b
       THEN "FAIL:equal_schemas_disagree_on_a_value:" \o Sig(e, e.equals[j].b)
  ELSE FirstDiffering(e, j + 1)

\* "changing a declared parameter in a way that alters what the schema accepts makes them unequal":
\* two declarations the real == calls equal must accept the same values by their declared meaning
\* (a witness of one that the other's declaration rejects, or a probe they are declared to judge
\* differently, shows they do not)
DeclaredApart(a, b, probes) ==
  \/ Sat(a) /\ ~Conforms(b, Get(Witness(a)))
  \/ Sat(b) /\ ~Conforms(a, Get(Witness(b)))
  \/ \E p \in DOMAIN probes : Conforms(a, probes[p].w) # Conforms(b, probes[p].w)

\* optional(key) markers (d42/declaration/types/_optional.py): equal exactly when their keys are,
\* hash-consistent, never equal to the bare key -- observed on the real class for every pair of
\* keys of the key zoo and reported as one flag per schema event
Verdict(e) ==
  IF ~e.refl THEN "FAIL:not_reflexive:"
  ELSE IF ~e.stable THEN "FAIL:relation_changed_after_the_schemas_were_used:"
  ELSE IF ~e.rebuilt_eq THEN "FAIL:independent_builds_unequal:"
  ELSE IF ~e.ne_ok THEN "FAIL:ne_is_not_the_negation_of_eq:"
  ELSE IF ~e.sym_ok THEN "FAIL:not_symmetric:"
  ELSE IF ~e.trans_ok THEN "FAIL:not_transitive:"
  ELSE IF ~e.value_ok THEN "FAIL:eq_with_value_differs_from_validate:"
  ELSE IF \E j \in DOMAIN e.equals : DeclaredApart(e.a, e.equals[j].b, e.equals[j].probes)
       THEN "FAIL:declarations_that_accept_different_values_compare_equal:"
  ELSE FirstDiffering(e, 1)

\* the operational model of == predicts exactly which schemas compare equal
Drift(e) ==
  \/ ~e.optional_ok        \* the marker class on its own: a helper, its effect on schemas is judged above
  \/ {b \in EqUniverse(Depth) : b # e.a /\ SEq(e.a, b)} # {e.equals[j].b : j \in DOMAIN e.equals}

TraceNext == TraceStep(Verdict, Drift)

=============================================================================
