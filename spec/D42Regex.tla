---------------------------- MODULE D42Regex ----------------------------
(***************************************************************************)
(* Regular expressions as ASTs: their language (set-of-end-positions       *)
(* matcher, no backtracking) and the operational model of d42's            *)
(* RegexGenerator (one clause per _generate_* method) driven by a tape of  *)
(* draw selectors.                                                         *)
(***************************************************************************)
EXTENDS D42Values, D42Known

(***************************************************************************)
(* AST                                                                     *)
(***************************************************************************)
RLit(c) == [r |-> "lit", c |-> c]
RNotLit(c) == [r |-> "notlit", c |-> c]              \* [^c]
RAny == [r |-> "any"]                                \* .
RClass(neg, items) == [r |-> "class", neg |-> neg, items |-> items]
CLit(c) == [ci |-> "lit", c |-> c]
CRange(lo, hi) == [ci |-> "range", lo |-> lo, hi |-> hi]
CCat(cat) == [ci |-> "cat", cat |-> cat]             \* "digit" "word" | "space" "ndigit" ...
RDigit == RClass(FALSE, <<CCat("digit")>>)           \* \d  (sre: IN [CATEGORY_DIGIT])
RWord == RClass(FALSE, <<CCat("word")>>)             \* \w
RGroup(kind, body) == [r |-> "group", kind |-> kind, body |-> body]   \* cap noncap named
RAlt(alts) == [r |-> "alt", alts |-> alts]
RSeq(parts) == [r |-> "seq", parts |-> parts]
INF == -1
RRep(body, lo, hi, lazy) == [r |-> "rep", body |-> body, lo |-> lo, hi |-> hi, lazy |-> lazy]
RStart == [r |-> "at", at |-> "start"]
REnd == [r |-> "at", at |-> "end"]
\* constructs the generator does not support: lookahead nlookahead lookbehind nlookbehind
\* backref atomic possessive  (body is the operand where there is one, else RSeq(<<>>))
RUns(kind, body) == [r |-> "uns", kind |-> kind, body |-> body]
\* pattern text outside the modelled grammar (inline flags, ...): no language and no generator
\* model here; it can still be carried through traces whose verdict does not need either
RRaw(text) == [r |-> "raw", text |-> text]

SupportedCats == {"digit", "word"}
MAX_REPEAT_OPCODE == 44      \* re._constants.MAX_REPEAT on CPython 3.12

Digits == <<48, 49, 50, 51, 52, 53, 54, 55, 56, 57>>
Lower == [i \in 1..26 |-> 96 + i]
Upper == [i \in 1..26 |-> 64 + i]
IsDigitC(c) == c >= 48 /\ c <= 57
IsWordC(c) == IsDigitC(c) \/ (c >= 97 /\ c <= 122) \/ (c >= 65 /\ c <= 90) \/ c = 95
IsSpaceC(c) == c \in {32, 9, 10, 11, 12, 13}

InCat(c, cat) == CASE cat = "digit" -> IsDigitC(c)
                   [] cat = "word" -> IsWordC(c)
                   [] cat = "space" -> IsSpaceC(c)
                   [] cat = "ndigit" -> ~IsDigitC(c)
                   [] cat = "nword" -> ~IsWordC(c)
                   [] cat = "nspace" -> ~IsSpaceC(c)

InItem(c, it) == CASE it.ci = "lit" -> c = it.c
                   [] it.ci = "range" -> c >= it.lo /\ c <= it.hi
                   [] it.ci = "cat" -> InCat(c, it.cat)

InClass(c, cls) == LET hit == \E i \in DOMAIN cls.items : InItem(c, cls.items[i])
                   IN  IF cls.neg THEN ~hit ELSE hit

(***************************************************************************)
(* Language.  REnds(r, w, i): the set of offsets j (i <= j <= Len(w)) such *)
(* that r matches w[i+1..j].  Unsupported constructs have no language here *)
(* (the oracle for them is Python's re, see DESIGN 10); they yield {}.     *)
(***************************************************************************)
RECURSIVE REnds(_, _, _), RSeqEnds(_, _, _, _), RStep(_, _, _), RIterate(_, _, _, _),
          RClosure(_, _, _), RBounded(_, _, _, _, _)

\* one application of body from every offset in S
RStep(body, w, S) == UNION {REnds(body, w, j) : j \in S}

\* offsets after exactly k applications
RIterate(body, w, S, k) == IF k = 0 \/ S = {} THEN S ELSE RIterate(body, w, RStep(body, w, S), k - 1)

\* least set containing S and closed under one more application
RClosure(body, w, S) == LET T == S \cup RStep(body, w, S)
                        IN  IF T = S THEN S ELSE RClosure(body, w, T)

\* union of the offsets after 0..k further applications starting from S
RBounded(body, w, S, k, acc) ==
  IF k = 0 \/ S = {} THEN acc \cup S
  ELSE RBounded(body, w, RStep(body, w, S), k - 1, acc \cup S)

RSeqEnds(parts, w, S, n) ==
  IF n > Len(parts) \/ S = {} THEN S
  ELSE RSeqEnds(parts, w, RStep(parts[n], w, S), n + 1)

REnds(r, w, i) ==
  CASE r.r = "lit" -> IF i < Len(w) /\ w[i + 1] = r.c THEN {i + 1} ELSE {}
    [] r.r = "notlit" -> IF i < Len(w) /\ w[i + 1] # r.c THEN {i + 1} ELSE {}
    [] r.r = "any" -> IF i < Len(w) /\ w[i + 1] # 10 THEN {i + 1} ELSE {}
    [] r.r = "class" -> IF i < Len(w) /\ InClass(w[i + 1], r) THEN {i + 1} ELSE {}
    [] r.r = "group" -> REnds(r.body, w, i)
    [] r.r = "alt" -> UNION {REnds(r.alts[a], w, i) : a \in DOMAIN r.alts}
    [] r.r = "seq" -> RSeqEnds(r.parts, w, {i}, 1)
    [] r.r = "rep" ->
         LET S == RIterate(r.body, w, {i}, r.lo)
         IN  IF r.hi = INF THEN RClosure(r.body, w, S)
             ELSE IF r.hi < r.lo THEN {}
             ELSE RBounded(r.body, w, S, r.hi - r.lo, {})
    [] r.r = "at" -> IF r.at = "start" THEN (IF i = 0 THEN {i} ELSE {})
                     ELSE (IF i = Len(w) \/ (i = Len(w) - 1 /\ w[Len(w)] = 10) THEN {i} ELSE {})
    [] r.r = "uns" -> {}
    [] r.r = "raw" -> {}

RFullMatch(r, w) == Len(w) \in REnds(r, w, 0)
RSearch(r, w) == \E i \in 0..Len(w) : REnds(r, w, i) # {}

RECURSIVE RHasNeg(_)
\* a negated class somewhere: its candidates are enumerated from a Python set, so which
\* letter an index selects is not predictable (only that it is *some* candidate)
RHasNeg(r) ==
  CASE r.r = "notlit" -> TRUE
    [] r.r = "class" -> r.neg
    [] r.r \in {"group", "rep", "uns"} -> RHasNeg(r.body)
    [] r.r = "alt" -> \E a \in DOMAIN r.alts : RHasNeg(r.alts[a])
    [] r.r = "seq" -> \E a \in DOMAIN r.parts : RHasNeg(r.parts[a])
    [] OTHER -> FALSE

RECURSIVE RHasUns(_)
RHasUns(r) ==
  CASE r.r = "uns" -> TRUE
    [] r.r = "class" -> \E i \in DOMAIN r.items :
                           r.items[i].ci = "cat" /\ r.items[i].cat \notin SupportedCats
    [] r.r = "group" -> RHasUns(r.body)
    [] r.r = "rep" -> RHasUns(r.body)
    [] r.r = "alt" -> \E a \in DOMAIN r.alts : RHasUns(r.alts[a])
    [] r.r = "seq" -> \E a \in DOMAIN r.parts : RHasUns(r.parts[a])
    [] OTHER -> FALSE

(***************************************************************************)
(* Draw tapes.  A tape is a non-empty cyclic sequence of selectors; the    *)
(* n-th draw of a run uses tape[(n mod Len) + 1].  Each RNG primitive has  *)
(* a contract (randint(a,b) in a..b, choice(seq) in seq); the selectors    *)
(* name the boundary outcomes of that contract.                            *)
(***************************************************************************)
Selectors == {"lo", "lo1", "hi1", "hi"}
SelAt(tape, p) == tape[(p % Len(tape)) + 1]

\* randint(a, b), a <= b
PickInt(sel, a, b) == CASE sel = "lo" -> a
                        [] sel = "hi" -> b
                        [] sel = "lo1" -> DMin2(a + 1, b)
                        [] sel = "hi1" -> DMax2(b - 1, a)
\* choice over n >= 1 items: 1-based index
PickIdx(sel, n) == PickInt(sel, 1, n)

\* the "letters" alphabet of RegexGenerator: ascii_letters + digits + punctuation + " "
RLetters == [i \in 1..52 |-> IF i <= 26 THEN 96 + i ELSE 64 + (i - 26)] \o Digits \o
            <<33,34,35,36,37,38,39,40,41,42,43,44,45,46,47,58,59,60,61,62,63,64,
              91,92,93,94,95,96,123,124,125,126>> \o <<32>>
RWordAlphabet == [i \in 1..52 |-> IF i <= 26 THEN 96 + i ELSE 64 + (i - 26)] \o Digits \o <<95>>

CatAlphabet(cat) == IF cat = "digit" THEN Digits ELSE RWordAlphabet

(***************************************************************************)
(* Operational model of RegexGenerator.  Results:                          *)
(*   [ok |-> TRUE, w |-> text, p |-> draws consumed so far]                *)
(*   [ok |-> FALSE, exc |-> "ValueError" | "IndexError", p |-> ...]        *)
(* DevSetOrder: the negated-class candidate string is built from a Python  *)
(* set, so which letter a given index selects is unspecified; the model    *)
(* then only constrains the result to be *some* candidate (see RGenNotIn). *)
(***************************************************************************)
ROk(w, p) == [ok |-> TRUE, w |-> w, p |-> p]
RErr(e, p) == [ok |-> FALSE, exc |-> e, p |-> p]

\* characters excluded by the items of a negated class; "ValueError" for an unknown category
NotInExcludes(items) == {c \in SeqToSet(RLetters) : \E i \in DOMAIN items : InItem(c, items[i])}
NotInUnknownCat(items) == \E i \in DOMAIN items :
                             items[i].ci = "cat" /\ items[i].cat \notin SupportedCats

\* candidates in the order of the letters alphabet (what an ordered implementation would
\* index; the set-based implementation indexes an arbitrary permutation of these)
NotInCandidates(items) == LET ex == NotInExcludes(items)
                          IN  SelectSeq(RLetters, LAMBDA c : c \notin ex)

RECURSIVE RGen(_, _, _, _), RGenSeq(_, _, _, _, _, _), RGenRepeat(_, _, _, _, _, _)

RGenNotIn(items, tape, p) ==
  IF NotInUnknownCat(items) THEN RErr("ValueError", p)
  ELSE LET cand == NotInCandidates(items)
       IN  IF Len(cand) = 0 THEN RErr("IndexError", p + 1)
           ELSE ROk(<<cand[PickIdx(SelAt(tape, p), Len(cand))]>>, p + 1)

RGenIn(cls, tape, p) ==
  IF cls.neg THEN RGenNotIn(cls.items, tape, p)
  ELSE LET it == cls.items[PickIdx(SelAt(tape, p), Len(cls.items))]
           p1 == p + 1
       IN  CASE it.ci = "lit" -> ROk(<<it.c>>, p1)
             [] it.ci = "range" ->
                  IF it.lo > it.hi THEN RErr("ValueError", p1 + 1)
                  ELSE ROk(<<PickInt(SelAt(tape, p1), it.lo, it.hi)>>, p1 + 1)
             [] it.ci = "cat" ->
                  IF it.cat \notin SupportedCats THEN RErr("ValueError", p1)
                  ELSE LET al == CatAlphabet(it.cat)
                       IN  ROk(<<al[PickIdx(SelAt(tape, p1), Len(al))]>>, p1 + 1)

\* generate parts[n..] in order, threading the draw position
RGenSeq(parts, n, tape, p, mr, acc) ==
  IF n > Len(parts) THEN ROk(acc, p)
  ELSE LET g == RGen(parts[n], tape, p, mr)
       IN  IF ~g.ok THEN g ELSE RGenSeq(parts, n + 1, tape, g.p, mr, acc \o g.w)

RGenRepeat(body, count, tape, p, mr, acc) ==
  IF count = 0 THEN ROk(acc, p)
  ELSE LET g == RGen(body, tape, p, mr)
       IN  IF ~g.ok THEN g ELSE RGenRepeat(body, count - 1, tape, g.p, mr, acc \o g.w)

RGen(r, tape, p, mr) ==
  CASE r.r = "lit" -> ROk(<<r.c>>, p)
    [] r.r = "notlit" -> RGenNotIn(<<CLit(r.c)>>, tape, p)
    [] r.r = "any" -> ROk(<<RLetters[PickIdx(SelAt(tape, p), Len(RLetters))]>>, p + 1)
    [] r.r = "class" -> RGenIn(r, tape, p)
    [] r.r = "group" -> RGen(r.body, tape, p, mr)
    [] r.r = "alt" -> RGen(r.alts[PickIdx(SelAt(tape, p), Len(r.alts))], tape, p + 1, mr)
    [] r.r = "seq" -> RGenSeq(r.parts, 1, tape, p, mr, <<>>)
    [] r.r = "rep" ->
         LET open == r.hi = INF \/ (DEV_RegexOpcodeAsBound /\ r.hi = MAX_REPEAT_OPCODE)
             hi == IF open THEN DMax2(mr, r.lo) ELSE r.hi
         IN  IF r.lo > hi THEN RErr("ValueError", p + 1)
             ELSE RGenRepeat(r.body, PickInt(SelAt(tape, p), r.lo, hi), tape, p + 1, mr, <<>>)
    [] r.r = "at" -> ROk(<<>>, p)
    [] r.r = "uns" -> RErr("ValueError", p)
    [] r.r = "raw" -> RErr("UNMODELLED", p)

=============================================================================
