---------------------------- MODULE MC_Comb ----------------------------
(***************************************************************************)
(* C13: schema combinators mean what their parts mean.                     *)
(* Each initial state is one combination (operator + operands); the single *)
(* step applies it.  Invariants compare the meaning of the result with the *)
(* meaning of the parts on probe values drawn from operands and result.    *)
(***************************************************************************)
EXTENDS D42Combine, D42SchemaUniverse

CONSTANT Rich     \* BOOLEAN: larger operand universes

VARIABLES op, a, b, c, ks, res

vars == <<op, a, b, c, ks, res>>

E2 == {SInt1, SStrAB}
E3 == {SInt1, SStrAB, SInt05}
DictOps == DictsOver(IF Rich THEN E3 ELSE E2)
\* (the less used types too: a datetime is not a date, a bytes value is not a str)
Alts == Comp \cup {R_Any, R_Dict, BareAny, R_Head, BareDatetime, SDatetime0, SDate0, SBytesA, SUuid0}
\* declarations that hold nothing: an alias, a union member or an operand may be one of them
Empties == {BareDict, DictOf(<<>>), BareList, ElemsList(<<>>), BareAny, BareStr, SBytesEmpty}
AltsSmall == {SInt1, SStrAB, BareNone, R_Any, BareAny}
KeyLists == {NoneOpt, Some(<<>>), Some(<<KA>>), Some(<<KB>>), Some(<<KA, KB>>), Some(<<VStr(<<122>>)>>),
             Some(<<VInt(1)>>), Some(<<VEllipsis>>)}
\* keys that are tuples: d[(1, 2)] is written d[1, 2]
TupleKeyed == {DictOf(<<DKey(VObj("tuple12", <<>>, NoneOpt), SInt1, FALSE), DKey(VInt(1), SStrAB, TRUE)>>),
               DictOf(<<DKey(VInt(1), DictOf(<<DKey(VInt(2), SStrAB, FALSE)>>), FALSE),
                        DKey(VObj("tuple12", <<>>, NoneOpt), SInt05, TRUE)>>)}
None0 == BareNone

NoRes == [ok |-> FALSE, exc |-> "none"]

Init ==
  /\ res = NoRes
  /\ \/ op = "union" /\ a \in Alts /\ b \in Alts /\ c = None0 /\ ks = NoneOpt
     \/ op = "any3" /\ a \in AltsSmall /\ b \in AltsSmall /\ c \in AltsSmall /\ ks = NoneOpt
     \/ op = "add" /\ a \in DictOps /\ b \in DictOps /\ c = None0 /\ ks = NoneOpt
     \/ op = "add_bad" /\ a \in {R_Dict} /\ b \in {BareInt, R_Any} /\ c = None0 /\ ks = NoneOpt
     \/ op = "make_required" /\ a \in DictOps /\ b = None0 /\ c = None0 /\ ks \in KeyLists
     \/ op = "alias" /\ a \in Alts \cup Rep1 \cup Empties /\ b = None0 /\ c = None0 /\ ks = NoneOpt
     \/ op = "union" /\ a \in Empties /\ b \in {SInt1, BareNone} /\ c = None0 /\ ks = NoneOpt
     \/ op = "getitem" /\ a \in DictOps \cup TupleKeyed /\ b = None0 /\ c = None0 /\ ks = NoneOpt

Result ==
  CASE op = "union" -> Union(a, b)
    [] op = "any3" -> AnyN(<<Union(a, b).s, c>>)          \* schema.any(a | b, c): nested union
    [] op \in {"add", "add_bad"} -> Add(a, b)
    [] op = "make_required" -> MakeRequired(a, ks)
    [] op = "alias" -> SOk(SAlias("T", a))
    [] op = "getitem" -> SOk(a)

Combine == /\ res = NoRes
           /\ res' = Result
           /\ UNCHANGED <<op, a, b, c, ks>>

Next == Combine

GenValuesOf(x) == {Gen(x, t, 0).v : t \in {t \in ConstTapes : Gen(x, t, 0).ok}}
ProbeSet(X) == UNION {UNION {{g} \cup Mutants(g, Unrelated, ExtraKeys) : g \in GenValuesOf(x)} : x \in X}
Done == res # NoRes

C13_Union ==
  (Done /\ op = "union") =>
     /\ res.ok
     /\ \A w \in ProbeSet({a, b, res.s}) : Conforms(res.s, w) = (Conforms(a, w) \/ Conforms(b, w))

C13_NestedUnionFlattens ==
  (Done /\ op = "any3") =>
     /\ res.ok
     /\ \A i \in DOMAIN Get(res.s.types) : ~(Get(res.s.types)[i].t = "any" /\ IsSome(Get(res.s.types)[i].types))
     /\ \A w \in ProbeSet({a, b, c, res.s}) :
           Conforms(res.s, w) = (Conforms(a, w) \/ Conforms(b, w) \/ Conforms(c, w))

C13_Add ==
  (Done /\ op = "add") =>
     /\ res.ok
     /\ \A w \in ProbeSet({a, b, res.s}) : Conforms(res.s, w) = AddMeaning(a, b, w)
  
C13_AddBadOperand == (Done /\ op = "add_bad") => (~res.ok /\ res.exc = "TypeError")

C13_MakeRequired ==
  (Done /\ op = "make_required") =>
     IF res.ok THEN \A w \in ProbeSet({a, res.s}) : Conforms(res.s, w) = MakeRequiredMeaning(a, ks, w)
     ELSE res.exc = "DeclarationError" /\ \E i \in DOMAIN Get(ks) : ~KeysHas(IF IsSome(a.keys) THEN Get(a.keys) ELSE <<>>, Get(ks)[i])

C13_Alias ==
  (Done /\ op = "alias") => \A w \in ProbeSet({a}) : Conforms(res.s, w) = Conforms(a, w)

C13_GetItem ==
  (Done /\ op = "getitem") =>
     \A key \in {KA, KB, VInt(1), VNone, VEllipsis, VStr(<<122>>)} :
        LET g == GetItem(a, key) IN
        IF IsSome(a.keys) /\ ~IsEll(key) /\ KeysHas(Get(a.keys), key)
        THEN g.ok /\ g.s = Get(a.keys)[KeyIdx(Get(a.keys), key)].val
        ELSE ~g.ok /\ g.exc = "KeyError"

\* generation from every combination conforms (C01 for combined schemas)
C13_CombinedGenerates ==
  (Done /\ res.ok) => \A t \in ConstTapes : LET g == Gen(res.s, t, 0) IN
                         (Sat(res.s) /\ ~KnownGen(res.s)) => (g.ok /\ Conforms(res.s, g.v))

=============================================================================
