---------------------------- MODULE D42Generate ----------------------------
(***************************************************************************)
(* Operational model of d42.generation.Generator and Random: one clause    *)
(* per visit_* method, the default bounds of _consts.py, and the draws the *)
(* code makes, in the order it makes them.  All nondeterminism is in the   *)
(* draws; a run is determined by a tape of selectors (D42Regex.SelAt).     *)
(*   Gen(s, tape, p) = [ok |-> TRUE,  v |-> value, p |-> draws consumed]   *)
(*                   | [ok |-> FALSE, exc |-> exception type, p |-> ...]   *)
(***************************************************************************)
EXTENDS D42Validate

STR_LEN_MIN == 0
STR_LEN_MAX == 32
LIST_LEN_MIN == 0
LIST_LEN_MAX == 16
BYTES_LEN_MIN == 0
BYTES_LEN_MAX == 32
MAX_REPEAT == 32
\* string.digits + string.ascii_letters + " -_"
STR_ALPHABET == Digits \o [i \in 1..52 |-> IF i <= 26 THEN 96 + i ELSE 64 + (i - 26)] \o <<32, 45, 95>>

CLOCK == 9999          \* id of values drawn from the OS / the clock (uuid4(), utcnow(), today())

GOk(v, p) == [ok |-> TRUE, v |-> v, p |-> p]
GErr(e, p) == [ok |-> FALSE, exc |-> e, p |-> p]

\* random.randint(a, b): ValueError on an empty range
GRandInt(a, b, tape, p) ==
  IF a > b THEN [ok |-> FALSE, exc |-> "ValueError", p |-> p + 1]
  ELSE [ok |-> TRUE, n |-> PickInt(SelAt(tape, p), a, b), p |-> p + 1]

\* Random.random_str(n, alphabet): n draws of random.choice(alphabet)
RECURSIVE GRandStr(_, _, _, _, _)
GRandStr(n, alphabet, tape, p, acc) ==
  IF n <= 0 THEN [ok |-> TRUE, w |-> acc, p |-> p]
  ELSE IF Len(alphabet) = 0 THEN [ok |-> FALSE, exc |-> "IndexError", p |-> p + 1]
  ELSE GRandStr(n - 1, alphabet, tape, p + 1,
                Append(acc, alphabet[PickIdx(SelAt(tape, p), Len(alphabet))]))

(***************************************************************************)
(* floats (q = 1/100 units; FLOAT_MIN / FLOAT_MAX are landmarks)           *)
(***************************************************************************)
IsLandmarkQ(q) == q = FLOAT_MIN \/ q = FLOAT_MAX
CeilDiv(num, den) == -((-num) \div den)

\* random.uniform(a, b) for a <= b: the ends, or the grid midpoint
PickUniform(sel, a, b) ==
  LET mid == IF IsLandmarkQ(a) \/ IsLandmarkQ(b) THEN a ELSE (a + b) \div 2
  IN  CASE sel = "lo" -> a [] sel = "hi" -> b
        [] sel = "lo1" -> IF IsLandmarkQ(a) \/ IsLandmarkQ(b) THEN a ELSE mid
        [] sel = "hi1" -> IF IsLandmarkQ(a) \/ IsLandmarkQ(b) THEN b ELSE mid

\* Random.random_float(start, end, precision), precision in 1..2 in the model
GRandFloatGrid(a, b, prec, tape, p) ==
  LET scale == Pow10(prec)
      sel == SelAt(tape, p)
      \* int(x * scale) truncates toward zero; the repaired code rounds inward
      left == IF DEV_FloatGridTruncates THEN TruncDiv(a * scale, 100) ELSE CeilDiv(a * scale, 100)
      right == IF DEV_FloatGridTruncates THEN TruncDiv(b * scale, 100) ELSE (b * scale) \div 100
      toQ(k) == (k * 100) \div scale
  IN  IF a > b THEN GErr("ValueError", p)
      ELSE IF IsLandmarkQ(a) /\ sel \in {"lo", "lo1"} THEN GOk(VFloat(a), p + 1)
      ELSE IF IsLandmarkQ(b) /\ sel \in {"hi", "hi1"} THEN GOk(VFloat(b), p + 1)
      ELSE IF IsLandmarkQ(a)      \* finite end chosen, the other end is far away
           THEN GOk(VFloat(toQ(IF sel = "hi" THEN right ELSE right - 1)), p + 1)
      ELSE IF IsLandmarkQ(b)
           THEN GOk(VFloat(toQ(IF sel = "lo" THEN left ELSE left + 1)), p + 1)
      ELSE IF left > right THEN GErr("ValueError", p + 1)
      ELSE GOk(VFloat(toQ(PickInt(sel, left, right))), p + 1)

GFloat(s, tape, p) ==
  IF IsSome(s.value) THEN GOk(Get(s.value), p)
  ELSE LET a0 == IF IsSome(s.min) THEN Base(Get(s.min)).q ELSE FLOAT_MIN
           b0 == IF IsSome(s.max) THEN Base(Get(s.max)).q ELSE FLOAT_MAX
           b == IF ~DEV_DefaultMaxBelowMin /\ IsNone(s.max) THEN DMax2(b0, a0) ELSE b0
           a == IF ~DEV_DefaultMaxBelowMin /\ IsNone(s.min) THEN DMin2(a0, b) ELSE a0
       IN  IF IsSome(s.precision)
           THEN IF IntOf(Get(s.precision)) > 2 THEN GErr("UNMODELLED", p)
                ELSE GRandFloatGrid(a, b, IntOf(Get(s.precision)), tape, p)
           ELSE IF a > b THEN GErr("ValueError", p)
                ELSE GOk(VFloat(PickUniform(SelAt(tape, p), a, b)), p + 1)

(***************************************************************************)
(* str                                                                     *)
(***************************************************************************)
GStr(s, tape, p) ==
  IF IsSome(s.value) THEN GOk(Get(s.value), p)
  ELSE IF IsSome(s.pattern)
  THEN LET g == RGen(Get(s.pattern).rx, tape, p, MAX_REPEAT)
       IN  IF g.ok THEN GOk(VStr(g.w), g.p) ELSE GErr(g.exc, g.p)
  ELSE
  LET sub == IF IsSome(s.substr) THEN Get(s.substr).s ELSE <<>>
      mn0 == IF IsSome(s.min_len) THEN IntOf(Get(s.min_len)) ELSE STR_LEN_MIN
      mx0 == IF IsSome(s.max_len) THEN IntOf(Get(s.max_len)) ELSE STR_LEN_MAX
      mn == IF IsSome(s.substr) THEN DMax2(mn0, Len(sub)) ELSE mn0
      mx1 == IF IsSome(s.substr) THEN DMax2(mx0, Len(sub)) ELSE mx0
      \* repaired code: the default maximum never undercuts the declared minimum
      mx == IF ~DEV_DefaultMaxBelowMin /\ IsNone(s.max_len) THEN DMax2(mx1, mn) ELSE mx1
      ln == IF IsSome(s.len) THEN [ok |-> TRUE, n |-> IntOf(Get(s.len)), p |-> p]
            ELSE GRandInt(mn, mx, tape, p)
      alphabet == IF IsSome(s.alphabet) THEN Get(s.alphabet).s ELSE STR_ALPHABET
  IN  IF ~ln.ok THEN GErr(ln.exc, ln.p)
      ELSE IF IsSome(s.substr)
      THEN LET g == GRandStr(ln.n - Len(sub), alphabet, tape, ln.p, <<>>)
           IN  IF ~g.ok THEN GErr(g.exc, g.p)
               ELSE LET off == GRandInt(0, Len(g.w), tape, g.p)
                    IN  GOk(VStr(SubSeq(g.w, 1, off.n) \o sub \o SubSeq(g.w, off.n + 1, Len(g.w))), off.p)
      ELSE LET g == GRandStr(ln.n, alphabet, tape, ln.p, <<>>)
           IN  IF g.ok THEN GOk(VStr(g.w), g.p) ELSE GErr(g.exc, g.p)

(***************************************************************************)
(* containers                                                              *)
(***************************************************************************)
RECURSIVE Gen(_, _, _), GenEach(_, _, _, _, _), GenRepeat(_, _, _, _, _), GenKeys(_, _, _, _, _)

\* generate the given schemas in order
GenEach(schemas, i, tape, p, acc) ==
  IF i > Len(schemas) THEN GOk(VList(acc), p)
  ELSE LET g == Gen(schemas[i], tape, p)
       IN  IF ~g.ok THEN g ELSE GenEach(schemas, i + 1, tape, g.p, Append(acc, g.v))

GenRepeat(ty, n, tape, p, acc) ==
  IF n <= 0 THEN GOk(VList(acc), p)
  ELSE LET g == Gen(ty, tape, p)
       IN  IF ~g.ok THEN g ELSE GenRepeat(ty, n - 1, tape, g.p, Append(acc, g.v))

GenKeys(keys, i, tape, p, acc) ==
  IF i > Len(keys) THEN GOk(VDict(acc), p)
  ELSE IF IsEll(keys[i].key) \/ keys[i].opt THEN GenKeys(keys, i + 1, tape, p, acc)
  ELSE LET g == Gen(keys[i].val, tape, p)
       IN  IF ~g.ok THEN g ELSE GenKeys(keys, i + 1, tape, g.p, Append(acc, KV(keys[i].key, g.v)))

GList(s, tape, p) ==
  IF IsSome(s.elems)
  THEN LET els == Get(s.elems)
           g == GenEach(Concrete(els), 1, tape, p, <<>>)
           want == IF IsSome(s.len) THEN IntOf(Get(s.len))
                   ELSE IF IsSome(s.min_len) THEN IntOf(Get(s.min_len)) ELSE 0
       IN  \* repaired code: `...` stands for arbitrary elements, padded with None up to len / min_len
           \* (a min_len above the concrete elements is not declarable; substitution produces it)
           IF ~g.ok \/ DEV_ListEllipsisLenIgnored \/ Len(g.v.items) >= want THEN g
           ELSE LET pad == [j \in 1..(want - Len(g.v.items)) |-> VNone]
                IN  GOk(VList(IF IsEll(els[Len(els)]) THEN g.v.items \o pad ELSE pad \o g.v.items), g.p)
  ELSE
  LET mn == IF IsSome(s.min_len) THEN IntOf(Get(s.min_len)) ELSE LIST_LEN_MIN
      mx0 == IF IsSome(s.max_len) THEN IntOf(Get(s.max_len)) ELSE LIST_LEN_MAX
      mx == IF ~DEV_DefaultMaxBelowMin /\ IsNone(s.max_len) THEN DMax2(mx0, mn) ELSE mx0
      specified == IsSome(s.len) \/ IsSome(s.min_len) \/ IsSome(s.max_len)
      ln == IF IsSome(s.len) THEN [ok |-> TRUE, n |-> IntOf(Get(s.len)), p |-> p]
            ELSE GRandInt(mn, mx, tape, p)
  IN  IF ~ln.ok THEN GErr(ln.exc, ln.p)
      ELSE IF IsSome(s.type) THEN GenRepeat(Get(s.type), ln.n, tape, ln.p, <<>>)
      ELSE IF specified THEN GOk(VList([j \in 1..DMax2(0, ln.n) |-> VList(<<>>)]), ln.p)
      ELSE GOk(VList(<<>>), ln.p)

Gen(s, tape, p) ==
  CASE s.t = "none" -> GOk(VNone, p)
    [] s.t = "bool" -> IF IsSome(s.value) THEN GOk(Get(s.value), p)
                       ELSE GOk(VBool(PickIdx(SelAt(tape, p), 2) = 1), p + 1)
    [] s.t = "int" ->
         IF IsSome(s.value) THEN GOk(Get(s.value), p)
         ELSE LET a == IF IsSome(s.min) THEN IntOf(Get(s.min)) ELSE INT_MIN
                  b0 == IF IsSome(s.max) THEN IntOf(Get(s.max)) ELSE INT_MAX
                  b == IF ~DEV_DefaultMaxBelowMin /\ IsNone(s.max) THEN DMax2(b0, a) ELSE b0
                  a1 == IF ~DEV_DefaultMaxBelowMin /\ IsNone(s.min) THEN DMin2(a, b) ELSE a
                  r == GRandInt(a1, b, tape, p)
              IN  IF r.ok THEN GOk(VInt(r.n), r.p) ELSE GErr(r.exc, r.p)
    [] s.t = "float" -> GFloat(s, tape, p)
    [] s.t = "str" -> GStr(s, tape, p)
    [] s.t = "bytes" ->
         IF IsSome(s.value) THEN GOk(Get(s.value), p)
         ELSE LET ln == GRandInt(BYTES_LEN_MIN, BYTES_LEN_MAX, tape, p)
                  g == GRandStr(ln.n, STR_ALPHABET, tape, ln.p, <<>>)
              IN  GOk(VBytes(g.w), g.p)
    [] s.t = "uuid4" -> IF IsSome(s.value) THEN GOk(Get(s.value), p) ELSE GOk(VUuid(4, CLOCK), p)
    [] s.t = "datetime" -> IF IsSome(s.value) THEN GOk(Get(s.value), p) ELSE GOk(VDatetime(CLOCK), p)
    [] s.t = "date" -> IF IsSome(s.value) THEN GOk(Get(s.value), p) ELSE GOk(VDate(CLOCK), p + 1)
    [] s.t = "list" -> GList(s, tape, p)
    [] s.t = "dict" -> IF IsNone(s.keys) THEN GOk(VDict(<<>>), p)
                       ELSE GenKeys(Get(s.keys), 1, tape, p, <<>>)
    [] s.t = "any" ->
         IF IsNone(s.types) THEN GOk(VNone, p)
         ELSE IF Len(Get(s.types)) = 0 THEN GErr("IndexError", p + 1)
         ELSE Gen(Get(s.types)[PickIdx(SelAt(tape, p), Len(Get(s.types)))], tape, p + 1)
    [] s.t = "alias" -> Gen(s.type, tape, p)
    [] s.t = "custom" -> Gen(s.inner, tape, p)

\* the tapes explored exhaustively: constant tapes and short cyclic mixtures
ConstTapes == {<<x>> : x \in Selectors}
Tapes2 == ConstTapes \cup {<<x, y>> : x, y \in Selectors}
Tapes3 == Tapes2 \cup {<<x, y, z>> : x, y, z \in {"lo", "hi", "lo1"}}

=============================================================================
