---------------------------- MODULE D42Validate ----------------------------
(***************************************************************************)
(* Operational model of d42.validation.Validator and of the                *)
(* SubstitutorValidator (mode = "sub"): Errors(s, v, path, mode) is the    *)
(* error list the code builds, in the order it builds it, with its early   *)
(* returns, its window selection by fewest errors and its path handling.   *)
(* An exception escaping the validator is modelled as a pseudo error of    *)
(* kind "EXC" that aborts every enclosing loop (see HasExc).               *)
(***************************************************************************)
EXTENDS D42Meaning

EType(path, actual, exp) == [kind |-> "type", path |-> path, actual |-> actual, exp |-> exp]
EValue(path, actual, expv) == [kind |-> "value", path |-> path, actual |-> actual, expv |-> expv]
EMin(path, actual, b) == [kind |-> "min_value", path |-> path, actual |-> actual, bound |-> b]
EMax(path, actual, b) == [kind |-> "max_value", path |-> path, actual |-> actual, bound |-> b]
ELen(path, actual, n) == [kind |-> "length", path |-> path, actual |-> actual, size |-> n]
EMinLen(path, actual, n) == [kind |-> "min_length", path |-> path, actual |-> actual, size |-> n]
EMaxLen(path, actual, n) == [kind |-> "max_length", path |-> path, actual |-> actual, size |-> n]
EAlphabet(path, actual, a) == [kind |-> "alphabet", path |-> path, actual |-> actual, alphabet |-> a]
ESubstr(path, actual, sub) == [kind |-> "substr", path |-> path, actual |-> actual, substr |-> sub]
ERegex(path, actual, pat) == [kind |-> "regex", path |-> path, actual |-> actual, pattern |-> pat]
EMissingElem(path, actual, i) == [kind |-> "missing_element", path |-> path, actual |-> actual, index |-> i]
EExtraElem(path, actual, i) == [kind |-> "extra_element", path |-> path, actual |-> actual, index |-> i]
EMissingKey(path, actual, key) == [kind |-> "missing_key", path |-> path, actual |-> actual, mkey |-> key]
EExtraKey(path, actual, key) == [kind |-> "extra_key", path |-> path, actual |-> actual, xkey |-> key]
EMismatch(path, actual, types) == [kind |-> "schema_mismatch", path |-> path, actual |-> actual, types |-> types]
EUuidVersion(path, actual, ver) == [kind |-> "uuid_version", path |-> path, actual |-> actual, ver |-> ver]
EExc(exc, path, actual) == [kind |-> "EXC", path |-> path, actual |-> actual, exc |-> exc]

HasExc(errs) == \E i \in DOMAIN errs : errs[i].kind = "EXC"
FirstExc(errs) == errs[CHOOSE i \in DOMAIN errs : errs[i].kind = "EXC" /\ \A j \in 1..(i - 1) : errs[j].kind # "EXC"]

RECURSIVE Errors(_, _, _, _), ElemErrors(_, _, _, _, _, _, _), TypedErrors(_, _, _, _, _),
          DictKeyErrors(_, _, _, _, _, _), AnyErrors(_, _, _, _, _), BodyWindows(_, _, _, _, _, _)

\* _validate_elements(path, value, elements, start): stop at the first missing element
ElemErrors(elems, items, v0, start, i, path, mode) ==
  IF i > Len(elems) THEN <<>>
  ELSE LET real == start + (i - 1)      \* 0-based index into the value
       IN  IF real >= Len(items) THEN <<EMissingElem(path, v0, real)>>
           ELSE LET e == Errors(elems[i], items[real + 1], Append(path, PIx(real)), mode)
                IN  IF HasExc(e) THEN e ELSE e \o ElemErrors(elems, items, v0, start, i + 1, path, mode)

TypedErrors(ty, items, i, path, mode) ==
  IF i > Len(items) THEN <<>>
  ELSE IF mode = "sub" /\ IsEll(items[i]) /\ (i = 1 \/ i = Len(items))
       THEN TypedErrors(ty, items, i + 1, path, mode)
  ELSE LET e == Errors(ty, items[i], Append(path, PIx(i - 1)), mode)
       IN  IF HasExc(e) THEN e ELSE e \o TypedErrors(ty, items, i + 1, path, mode)

\* error lists of the windows starting at 0-based index >= w, in order
BodyWindows(conc, items, v0, w, path, mode) ==
  IF w >= Len(items) THEN <<>>
  ELSE <<ElemErrors(conc, items, v0, w, 1, path, mode)>> \o BodyWindows(conc, items, v0, w + 1, path, mode)

\* list.sort(key=len) is stable: the first window with the fewest errors
FewestErrors(wins) ==
  LET best == CHOOSE i \in DOMAIN wins :
                 /\ \A j \in DOMAIN wins : Len(wins[i]) <= Len(wins[j])
                 /\ \A j \in 1..(i - 1) : Len(wins[j]) > Len(wins[i])
  IN  wins[best]

ListElemsErrors(elems, v, v0, path, mode) ==
  LET items == v.items
      form == ListForm(elems)
      conc == Concrete(elems)
      n == Len(items)
  IN  CASE form = "body" ->
             IF n = 0 THEN ElemErrors(conc, items, v0, 0, 1, path, mode)
             ELSE LET wins == BodyWindows(conc, items, v0, 0, path, mode)
                  IN  IF \E i \in DOMAIN wins : HasExc(wins[i])
                      THEN <<FirstExc(wins[CHOOSE i \in DOMAIN wins : HasExc(wins[i]) /\ \A j \in 1..(i - 1) : ~HasExc(wins[j])])>>
                      ELSE FewestErrors(wins)
        [] form = "head" -> ElemErrors(conc, items, v0, 0, 1, path, mode)
        [] form = "tail" -> ElemErrors(conc, items, v0, DMax2(0, n - Len(conc)), 1, path, mode)
        [] form = "exact" ->
             LET e == ElemErrors(conc, items, v0, 0, 1, path, mode)
             IN  IF HasExc(e) THEN e
                 ELSE e \o [j \in 1..DMax2(0, n - Len(conc)) |->
                              EExtraElem(path, v0, Len(conc) + j - 1)]

\* declared keys in declaration order
DictKeyErrors(keys, i, v, v0, path, mode) ==
  IF i > Len(keys) THEN <<>>
  ELSE LET k == keys[i]
           rest == DictKeyErrors(keys, i + 1, v, v0, path, mode)
       IN  IF IsEll(k.key) THEN rest
           ELSE IF DictHas(v.pairs, k.key)
           THEN IF mode = "sub" /\ IsEll(DictGet(v.pairs, k.key)) THEN rest
                ELSE LET e == Errors(k.val, DictGet(v.pairs, k.key), Append(path, PKey(k.key)), mode)
                     IN  IF HasExc(e) THEN e ELSE e \o rest
           ELSE IF mode = "val" /\ ~k.opt THEN <<EMissingKey(path, v0, k.key)>> \o rest
           ELSE rest

ExtraKeyErrors(keys, v, v0, path) ==
  LET extra == SelectSeq(v.pairs, LAMBDA p : ~KeysHas(keys, p.key))
  IN  [j \in DOMAIN extra |-> EExtraKey(path, v0, extra[j].key)]

AnyErrors(types, i, v, path, mode) ==
  IF i > Len(types) THEN <<EMismatch(path, v, types)>>
  ELSE LET e == Errors(types[i], v, path, mode)
       IN  IF HasExc(e) THEN <<FirstExc(e)>>
           ELSE IF e = <<>> THEN <<>>
           ELSE AnyErrors(types, i + 1, v, path, mode)

SizeErrorsStr(s, v, v0, path) ==
  LET n == Len(v.s) IN
  (IF IsSome(s.len) /\ n # IntOf(Get(s.len)) THEN <<ELen(path, v0, Get(s.len))>> ELSE <<>>) \o
  (IF IsSome(s.min_len) /\ n < IntOf(Get(s.min_len)) THEN <<EMinLen(path, v0, Get(s.min_len))>> ELSE <<>>) \o
  (IF IsSome(s.max_len) /\ n > IntOf(Get(s.max_len)) THEN <<EMaxLen(path, v0, Get(s.max_len))>> ELSE <<>>)

\* float value comparison as coded: round(value * 10**p) raises on inf/nan
FloatValueErrors(s, v, v0, path) ==
  LET exp == Base(Get(s.value)) IN
  IF IsNone(s.precision)
  THEN IF FloatValueEq(v, exp, NoneOpt) THEN <<>> ELSE <<EValue(path, v0, Get(s.value))>>
  ELSE IF v.sp # "fin" \/ exp.sp # "fin"
       THEN IF DEV_FloatRoundRaises
            THEN <<EExc(IF v.sp = "nan" \/ (v.sp = "fin" /\ exp.sp = "nan")
                        THEN "ValueError" ELSE "OverflowError", path, v0)>>
            ELSE IF FloatValueEq(v, exp, s.precision) THEN <<>>
                 ELSE <<EValue(path, v0, Get(s.value))>>
       ELSE IF FloatValueEq(v, exp, s.precision) THEN <<>>
            ELSE <<EValue(path, v0, Get(s.value))>>

PlainValueErrors(s, v0, ty, path) ==
  IF ~IsA(v0, ty) THEN <<EType(path, v0, ty)>>
  ELSE IF IsSome(s.value) /\ ~VEq(v0, Get(s.value)) THEN <<EValue(path, v0, Get(s.value))>>
  ELSE <<>>

Errors(s, v0, path, mode) ==
  LET v == Base(v0) IN
  CASE s.t = "none" -> IF v.k = "none" THEN <<>> ELSE <<EType(path, v0, "none")>>
    [] s.t = "bool" -> PlainValueErrors(s, v0, "bool", path)
    [] s.t = "bytes" -> PlainValueErrors(s, v0, "bytes", path)
    [] s.t = "datetime" -> PlainValueErrors(s, v0, "datetime", path)
    [] s.t = "date" -> PlainValueErrors(s, v0, "date", path)
    [] s.t = "uuid4" ->
         IF ~IsA(v0, "uuid") THEN <<EType(path, v0, "uuid")>>
         ELSE IF v.ver # 4 THEN <<EUuidVersion(path, v0, v.ver)>>
         ELSE IF IsSome(s.value) /\ ~VEq(v0, Get(s.value)) THEN <<EValue(path, v0, Get(s.value))>>
         ELSE <<>>
    [] s.t = "int" ->
         IF ~IsA(v0, "int") THEN <<EType(path, v0, "int")>>
         ELSE IF IsSome(s.value) /\ ~VEq(v, Get(s.value)) THEN <<EValue(path, v0, Get(s.value))>>
         ELSE (IF IsSome(s.min) /\ NumLt(v, Base(Get(s.min))) THEN <<EMin(path, v0, Get(s.min))>> ELSE <<>>) \o
              (IF IsSome(s.max) /\ NumLt(Base(Get(s.max)), v) THEN <<EMax(path, v0, Get(s.max))>> ELSE <<>>)
    [] s.t = "float" ->
         IF ~IsA(v0, "float") THEN <<EType(path, v0, "float")>>
         ELSE LET ve == IF IsSome(s.value) THEN FloatValueErrors(s, v, v0, path) ELSE <<>>
              IN  IF ve # <<>> THEN ve
                  ELSE (IF IsSome(s.min) /\ FLess(v, Base(Get(s.min))) THEN <<EMin(path, v0, Get(s.min))>> ELSE <<>>) \o
                       (IF IsSome(s.max) /\ FLess(Base(Get(s.max)), v) THEN <<EMax(path, v0, Get(s.max))>> ELSE <<>>)
    [] s.t = "str" ->
         IF ~IsA(v0, "str") THEN <<EType(path, v0, "str")>>
         ELSE IF IsSome(s.value) /\ v.s # Get(s.value).s THEN <<EValue(path, v0, Get(s.value))>>
         ELSE IF IsSome(s.pattern) /\ ~RSearch(Get(s.pattern).rx, v.s) THEN <<ERegex(path, v0, Get(s.pattern))>>
         ELSE LET pre == SizeErrorsStr(s, v, v0, path) \o
                         (IF IsSome(s.substr) /\ ~IsSubstr(Get(s.substr).s, v.s)
                          THEN <<ESubstr(path, v0, Get(s.substr))>> ELSE <<>>)
              IN  IF IsSome(s.alphabet) /\ ~AllIn(v.s, Get(s.alphabet).s)
                  THEN pre \o <<EAlphabet(IF DEV_AlphabetErrorRootPath THEN <<>> ELSE path,
                                          v0, Get(s.alphabet))>>
                  ELSE pre
    [] s.t = "list" ->
         IF ~IsA(v0, "list") THEN <<EType(path, v0, "list")>>
         ELSE LET n == Len(v.items) IN
              IF IsSome(s.len) /\ n # IntOf(Get(s.len)) THEN <<ELen(path, v0, Get(s.len))>>
              ELSE IF IsSome(s.min_len) /\ n < IntOf(Get(s.min_len)) THEN <<EMinLen(path, v0, Get(s.min_len))>>
              ELSE IF IsSome(s.max_len) /\ n > IntOf(Get(s.max_len)) THEN <<EMaxLen(path, v0, Get(s.max_len))>>
              ELSE IF IsSome(s.type) THEN TypedErrors(Get(s.type), v.items, 1, path, mode)
              ELSE IF IsSome(s.elems) THEN ListElemsErrors(Get(s.elems), v, v0, path, mode)
              ELSE <<>>
    [] s.t = "dict" ->
         IF ~IsA(v0, "dict") THEN <<EType(path, v0, "dict")>>
         ELSE IF IsNone(s.keys) THEN <<>>
         ELSE LET keys == Get(s.keys)
                  ke == DictKeyErrors(keys, 1, v, v0, path, mode)
              IN  IF HasExc(ke) THEN ke
                  ELSE IF IsRelaxed(keys) THEN ke ELSE ke \o ExtraKeyErrors(keys, v, v0, path)
    [] s.t = "any" ->
         IF IsNone(s.types) THEN <<>> ELSE AnyErrors(Get(s.types), 1, v0, path, mode)
    [] s.t = "alias" -> Errors(s.type, v0, path, mode)
    [] s.t = "custom" -> Errors(s.inner, v0, path, mode)

\* what validate() returns or raises
ValidateOutcome(s, v) ==
  LET e == Errors(s, v, <<>>, "val")
  IN  IF HasExc(e) THEN [exc |-> Some(FirstExc(e).exc), errs |-> <<>>]
      ELSE [exc |-> NoneOpt, errs |-> e]

(***************************************************************************)
(* ErrorTrue(e, root): the error points at the sub-value it reports and    *)
(* the stated fact holds of it (C03).  Written from the property text.     *)
(***************************************************************************)
ErrorTrue(e, root) ==
  LET loc == Locate(root, e.path) IN
  /\ IsSome(loc)
  /\ Get(loc) = e.actual \/ Base(Get(loc)) = e.actual \/ Get(loc) = Base(e.actual)
  /\ LET a == Base(e.actual) IN
     CASE e.kind = "type" -> ~IsA(e.actual, e.exp)
       [] e.kind = "value" -> IF a.k = "float" /\ Base(e.expv).k = "float"
                              THEN a.sp # "fin" \/ Base(e.expv).sp # "fin" \/ a.q # Base(e.expv).q
                              ELSE ~VEq(a, e.expv)
       [] e.kind = "min_value" -> IF a.k = "float" THEN FLess(a, Base(e.bound)) ELSE NumLt(a, Base(e.bound))
       [] e.kind = "max_value" -> IF a.k = "float" THEN FLess(Base(e.bound), a) ELSE NumLt(Base(e.bound), a)
       [] e.kind = "length" -> (IF a.k = "list" THEN Len(a.items) ELSE Len(a.s)) # IntOf(e.size)
       [] e.kind = "min_length" -> (IF a.k = "list" THEN Len(a.items) ELSE Len(a.s)) < IntOf(e.size)
       [] e.kind = "max_length" -> (IF a.k = "list" THEN Len(a.items) ELSE Len(a.s)) > IntOf(e.size)
       [] e.kind = "alphabet" -> ~AllIn(a.s, e.alphabet.s)
       [] e.kind = "substr" -> ~IsSubstr(e.substr.s, a.s)
       [] e.kind = "regex" -> ~RSearch(e.pattern.rx, a.s)
       [] e.kind = "missing_element" -> a.k = "list" /\ e.index >= Len(a.items)
       [] e.kind = "extra_element" -> a.k = "list" /\ e.index >= 0 /\ e.index < Len(a.items)
       [] e.kind = "missing_key" -> a.k = "dict" /\ ~DictHas(a.pairs, e.mkey)
       [] e.kind = "extra_key" -> a.k = "dict" /\ DictHas(a.pairs, e.xkey)
       [] e.kind = "schema_mismatch" -> \A i \in DOMAIN e.types : ~Conforms(e.types[i], e.actual)
       [] e.kind = "uuid_version" -> a.k = "uuid" /\ a.ver = e.ver /\ a.ver # 4

=============================================================================
