---------------------------- MODULE MC_Sub ----------------------------
(***************************************************************************)
(* The substitution machine (C04, C05, C12).                               *)
(*                                                                         *)
(*   build      a schema is declared (DSL chain or container universe)     *)
(*   observe    a seed value is generated from it under a constant tape    *)
(*   substitute schema % v for v = the seed or any one-step edit of it     *)
(*              (keys dropped at any depth = partial dicts, members        *)
(*              replaced by unrelated or unconvertible values, extra keys) *)
(* In every substituted state the three properties are evaluated on the    *)
(* operational model against the declarative meaning; each such state is   *)
(* exported as a test case (schema, value, predicted result).              *)
(***************************************************************************)
EXTENDS D42Substitute, D42SchemaUniverse

CONSTANTS Depth, Types, ContainerSet,
          SeedTapes     \* the tapes under which seed values are generated

VARIABLES s, src, chain, phase, seed, v, r

vars == <<s, src, chain, phase, seed, v, r>>

QuickSeedTapes == {<<"lo">>, <<"hi">>}
AllSeedTapes == ConstTapes

NoR == [ok |-> FALSE, exc |-> "none"]

Universe == CASE ContainerSet = "none" -> {}
              [] ContainerSet = "level1" -> ListsOver({SInt05, SStrAB}, {SInt1, SStrAlpha}) \cup DictsOver(CompSmall)
                                            \cup AnysOver(CompSmall) \cup Wrapped \cup Focus
              [] ContainerSet = "all" -> Containers

Init == /\ \/ src = "dsl" /\ s \in {Bare(t) : t \in Types}
           \/ src = "universe" /\ s \in Universe
        /\ chain = <<>> /\ phase = "build" /\ seed = VNone /\ v = VNone /\ r = NoR

Declare(c) ==
  /\ Len(chain) < Depth
  /\ Apply(s, c).ok
  /\ s' = Apply(s, c).s
  /\ chain' = Append(chain, c)
  /\ UNCHANGED <<src, phase, seed, v, r>>

Observe(t) ==
  /\ phase = "build"
  /\ Gen(s, t, 0).ok
  /\ phase' = "seeded"
  /\ seed' = Gen(s, t, 0).v
  /\ UNCHANGED <<s, src, chain, v, r>>

\* replacement set for substitution values: unrelated plain values and an unconvertible one
SubRepl == Unrelated \cup
           { VObj("tuple12", <<>>, NoneOpt),
             VDict(<<KV(VStr(<<122, 122>>), VNone)>>),                          \* only an undeclared key
             VList(<<VObj("tuple12", <<>>, NoneOpt)>>),                         \* unconvertible member one level down
             VDict(<<KV(VStr(<<122, 122>>), VList(<<VObj("tuple12", <<>>, NoneOpt)>>))>>),
             \* the placeholder `...` ("as declared") as a member, and under a key nothing declares
             VEllipsis, VDict(<<KV(VStr(<<122, 122>>), VEllipsis)>>),
             \* ... and as a *key* that carries a value
             VDict(<<KV(VEllipsis, VList(<<>>))>>), VList(<<VDict(<<KV(VEllipsis, VInt(1))>>)>>),
             VDict(<<KV(VStr(<<122, 122>>), VDict(<<KV(VEllipsis, VNone)>>))>>),
             \* non-finite floats are floats: as members they reach from_native
             VInf, VList(<<VNegInf>>),
             \* a UUID that is not version 4: no schema for it
             VUuid(1, 0),
             \* keys whose text could mean something to a DSL or a formatter
             VDict(<<KV(VStr(<<97, 63>>), VBool(FALSE)), KV(VStr(<<123, 125>>), VInt(1))>>) }

\* values sitting exactly on a declared numeric bound (where tolerance and bounds meet)
BoundValues == IF s.t \in {"int", "float"}
               THEN (IF IsSome(s.min) THEN {Get(s.min)} ELSE {}) \cup (IF IsSome(s.max) THEN {Get(s.max)} ELSE {})
               ELSE {}

\* a list seed with one more member, of every replacement kind (members outside a matched window)
Appended == IF seed.k = "list" THEN {VList(Append(seed.items, x)) : x \in SubRepl} ELSE {}

Substitute(x) ==
  /\ phase = "seeded"
  /\ phase' = "sub"
  /\ v' = x
  /\ r' = Subst(s, x)
  /\ UNCHANGED <<s, src, chain, seed>>

Next == \/ phase = "build" /\ src = "dsl" /\ \E c \in Calls(s.t) : Declare(c)
        \/ \E t \in SeedTapes : Observe(t)
        \/ phase = "seeded" /\ \E x \in {seed} \cup Mutants(seed, SubRepl, ExtraKeys) \cup BoundValues \cup Appended : Substitute(x)

View == <<s, phase, IF phase = "seeded" THEN seed ELSE v>>

(***************************************************************************)
(* Properties on the operational model                                     *)
(***************************************************************************)
GenValues(x) == {Gen(x, t, 0).v : t \in {t \in ConstTapes : Gen(x, t, 0).ok}}
Probes == {v} \cup Mutants(v, Unrelated, ExtraKeys)

\* recorded findings
KnownFallThrough == DEV_ContainsFallsThrough /\ ~r.ok /\ r.exc = "AttributeError"
RECURSIVE HasEmptyAny(_)
HasEmptyAny(x) == \E y \in SubSchemas(x) : y.t = "any" /\ IsSome(y.types) /\ Get(y.types) = <<>>
KnownAnyEmpty == DEV_AnyLeftEmpty /\ r.ok /\ HasEmptyAny(r.s)

C12_OnlySubstitutionError ==
  (phase = "sub" /\ ~r.ok) => (r.exc = "SubstitutionError" \/ KnownFallThrough)

C12_ResultUsable ==
  (phase = "sub" /\ r.ok) =>
     \/ /\ ~Malformed(r.s)
        /\ Sat(r.s)
        /\ \A t \in ConstTapes : Gen(r.s, t, 0).ok \/ KnownGen(r.s)
     \/ KnownAnyEmpty

C12_Idempotent ==
  (phase = "sub" /\ r.ok /\ IsPlain(v)) => (Subst(r.s, v) = r \/ KnownAnyEmpty)

C04_Pins ==
  (phase = "sub" /\ r.ok /\ IsPlain(v)) =>
     \/ /\ Conforms(s, v) => Conforms(r.s, v)
        /\ \A w \in GenValues(r.s) \cup Probes : Conforms(r.s, w) => Carries(w, v)
        /\ UnspecifiedKeysKept(s, v, r.s)
     \/ KnownAnyEmpty

C05_Narrows ==
  (phase = "sub" /\ r.ok /\ IsPlain(v)) =>
     \A w \in GenValues(r.s) \cup GenValues(s) \cup Probes : Conforms(r.s, w) => Conforms(s, w)

=============================================================================
