---------------------------- MODULE D42DslUniverse ----------------------------
(***************************************************************************)
(* The argument universe of the declaration DSL used by the DSL machines   *)
(* (MC_C10, MC_C11, D42 top-level machine): per type, the set of calls     *)
(* with valid, boundary, contradictory and wrongly-typed arguments.        *)
(***************************************************************************)
EXTENDS D42Validate

T(str) == [i \in 1..Len(str) |-> str[i]]   \* placeholder to keep text literals readable
A == 97
B == 98
C == 99

(***************************************************************************)
(* Argument universes                                                      *)
(***************************************************************************)
WrongCommon == {VNone, VEllipsis, VNil}

IntArgs == {VInt(0), VInt(5), VInt(-5), VInt(INT_MAX), VBool(TRUE)}
           \cup {VFloat(500), VStr(<<A>>)} \cup WrongCommon
IntCalls == {Call(m, <<a>>) : m \in {"value", "min", "max"}, a \in IntArgs}

FloatArgs == {VFloat(0), VFloat(525), VFloat(-525), VFloat(25)}
             \cup {VInt(5), VBool(TRUE), VStr(<<A>>)} \cup {VNone, VEllipsis}
PrecArgs == {VInt(0), VInt(1), VInt(2), VInt(15), VInt(16), VBool(TRUE), VFloat(100), VNone}
FloatCalls == {Call(m, <<a>>) : m \in {"value", "min", "max"}, a \in FloatArgs}
              \cup {Call("precision", <<a>>) : a \in PrecArgs}

\* "{}": text that means something to str.format / %-formatting when a message or a repr is built
StrVals == {VStr(<<>>), VStr(<<A, B>>), VStr(<<A, B, C>>), VStr(<<123, 125>>)}
LenNs == {VInt(0), VInt(2), VInt(3)}
StrLenCalls ==
  {Call("len", <<n>>) : n \in LenNs \cup {VInt(-1), VBool(TRUE), VStr(<<A>>), VFloat(200)}}
  \cup {Call("len", <<n, VEllipsis>>) : n \in LenNs \cup {VNone, VInt(33)}}
  \cup {Call("len", <<VEllipsis, n>>) : n \in {VInt(2), VInt(3), VStr(<<A>>)}}
  \cup {Call("len", <<VEllipsis>>), Call("len", <<VEllipsis, VEllipsis>>)}
  \cup {Call("len", <<VInt(0), VInt(2)>>), Call("len", <<VInt(2), VInt(3)>>),
        Call("len", <<VInt(3), VInt(2)>>), Call("len", <<VInt(2), VStr(<<A>>)>>),
        Call("len", <<VStr(<<A>>), VInt(2)>>)}
PatAPlus == VPat(RRep(RLit(A), 1, INF, FALSE))                         \* a+
PatAbAnch == VPat(RSeq(<<RStart, RLit(A), RLit(B), REnd>>))            \* ^ab$
PatC == VPat(RLit(C))                                                  \* c
PatDigitNL == VPat(RSeq(<<RDigit, RLit(10)>>))                         \* \d followed by a line feed
PatNegCat == VPat(RRep(RClass(TRUE, <<CRange(A, C), CLit(95), CCat("digit")>>), 2, 2, FALSE))   \* [^a-c_\d]{2}
StrCalls ==
  {Call("value", <<v>>) : v \in StrVals \cup {VInt(1), VNone, VBytes(<<A>>)}}
  \cup StrLenCalls
  \cup {Call("alphabet", <<v>>) : v \in {VStr(<<A, B>>), VStr(<<A, B, C>>), VStr(<<>>), VInt(1)}}
  \cup {Call("contains", <<v>>) : v \in {VStr(<<B>>), VStr(<<C>>), VStr(<<>>), VStr(<<123>>), VStr(<<B, A>>), VNone}}
  \cup {Call("regex", <<v>>) : v \in {PatAPlus, PatAbAnch, PatC, PatDigitNL, PatNegCat, VBadPat("error"),
                                      VBadPat("overflow"), VInt(1)}}

BoolCalls == {Call("value", <<v>>) : v \in {VBool(TRUE), VBool(FALSE), VInt(1), VInt(0), VNone, VStr(<<A>>)}}
BytesCalls == {Call("value", <<v>>) : v \in {VBytes(<<>>), VBytes(<<A>>), VStr(<<A>>), VInt(1), VNone,
                                             VObj("bytearray_ab", <<>>, NoneOpt)}}
\* VUuid(0, 1): version nibble 4 but not the RFC 4122 variant -- Python reports version None
UuidCalls == {Call("value", <<v>>) : v \in {VUuid(4, 0), VUuid(4, 1), VUuid(1, 0), VUuid(0, 0), VUuid(0, 1),
                                            VStr(<<A>>), VNone, VInt(1)}}
DatetimeCalls == {Call("value", <<v>>) : v \in {VDatetime(0), VDatetime(1), VDate(0), VStr(<<A>>), VNone}}
DateCalls == {Call("value", <<v>>) : v \in {VDate(0), VDate(1), VDatetime(0), VStr(<<A>>), VInt(1)}}

\* component schemas used inside containers
SInt1 == [BareInt EXCEPT !.value = Some(VInt(1))]
SStrAB == [BareStr EXCEPT !.value = Some(VStr(<<A, B>>))]
SAnyIS == [BareAny EXCEPT !.types = Some(<<BareInt, BareStr>>)]
ELL == VEllipsis
ListValArgs ==
  { VList(<<>>), VList(<<ASchema(SInt1)>>), VList(<<ASchema(SInt1), ASchema(SStrAB)>>),
    VList(<<ASchema(SInt1), ASchema(BareInt)>>),
    VList(<<ASchema(SInt1), ELL>>), VList(<<ELL, ASchema(SInt1)>>), VList(<<ELL, ASchema(SInt1), ELL>>),
    VList(<<ASchema(BareAny), ASchema(SInt1)>>), VList(<<ASchema(SInt1), ASchema(BareAny)>>), VList(<<ASchema(BareAny)>>),
    VList(<<ELL>>), VList(<<ELL, ELL>>), VList(<<ASchema(SInt1), ELL, ASchema(SInt1)>>),
    VList(<<ELL, ELL, ELL>>), VList(<<VInt(1)>>), VList(<<ASchema(SInt1), VNone>>),
    ASchema(BareInt), ASchema(SInt1), VInt(5), VNone, VObj("tuple12", <<>>, NoneOpt),
    VDict(<<>>) }
ListLenCalls ==
  {Call("len", <<n>>) : n \in {VInt(0), VInt(1), VInt(2), VInt(3), VBool(TRUE), VStr(<<A>>)}}
  \cup {Call("len", <<n, VEllipsis>>) : n \in {VInt(0), VInt(1), VInt(2), VInt(3)}}
  \cup {Call("len", <<VEllipsis, n>>) : n \in {VInt(0), VInt(1), VInt(2), VInt(3)}}
  \cup {Call("len", <<VEllipsis>>), Call("len", <<VInt(0), VInt(1)>>), Call("len", <<VInt(1), VInt(2)>>),
        Call("len", <<VInt(2), VInt(1)>>), Call("len", <<VInt(1), VNone>>)}
ListCalls == {Call("value", <<v>>) : v \in ListValArgs} \cup ListLenCalls

KA == VStr(<<A>>)
KB == VStr(<<B>>)
DictValArgs ==
  { VDict(<<>>), VDict(<<KV(KA, ASchema(SInt1))>>),
    VDict(<<KV(KA, ASchema(SInt1)), KV(VOptional(KB), ASchema(BareStr))>>),
    VDict(<<KV(ELL, ELL)>>), VDict(<<KV(KA, ASchema(SInt1)), KV(ELL, ELL)>>),
    VDict(<<KV(KA, ELL)>>), VDict(<<KV(ELL, ASchema(SInt1))>>), VDict(<<KV(VOptional(KA), ELL)>>),
    VDict(<<KV(KA, VInt(5))>>), VDict(<<KV(KA, ASchema(SInt1)), KV(VOptional(KA), ASchema(BareStr))>>),
    VDict(<<KV(VInt(1), ASchema(SInt1)), KV(VOptional(VBool(TRUE)), ASchema(BareStr))>>),
    VDict(<<KV(VNone, ASchema(SInt1)), KV(VObj("tuple12", <<>>, NoneOpt), ASchema(BareStr))>>),
    VInt(5), VList(<<>>), VNone, VObj("MyDict", <<"dict">>, Some(VDict(<<KV(KA, ASchema(SInt1))>>))) }
DictCalls == {Call("value", <<v>>) : v \in DictValArgs}

AnyCalls == { Call("value", <<ASchema(SInt1)>>), Call("value", <<ASchema(SInt1), ASchema(BareStr)>>),
              Call("value", <<ASchema(SAnyIS), ASchema(SInt1)>>),
              Call("value", <<ASchema([BareAny EXCEPT !.types = Some(<<SAnyIS, BareNone>>)]), ASchema(BareAny)>>),
              Call("value", <<VInt(5)>>), Call("value", <<ASchema(SInt1), VNone>>),
              Call("value", <<VNil>>), Call("value", <<ASchema(SInt1), VNil>>), Call("value", <<VEllipsis>>),
              Call("value", <<VList(<<ASchema(SInt1)>>)>>) }

Calls(t) == CASE t = "int" -> IntCalls [] t = "float" -> FloatCalls [] t = "str" -> StrCalls
              [] t = "bool" -> BoolCalls [] t = "bytes" -> BytesCalls [] t = "uuid4" -> UuidCalls
              [] t = "datetime" -> DatetimeCalls [] t = "date" -> DateCalls
              [] t = "list" -> ListCalls [] t = "dict" -> DictCalls [] t = "any" -> AnyCalls


IsValueCall(c) == c.m = "value"
\* `receiver | other` for a receiver of any type: schemas (plain, union, bare any) and non-schemas
OrCalls == {Call("or", <<v>>) : v \in {ASchema(SInt1), ASchema(SAnyIS), ASchema(BareAny), ASchema(BareNone),
                                       VInt(5), VNone, VEllipsis, VNil}}
\* nan is a float: declared as a value only in the C10 machine (its open finding
\* float.nan_value_rejects_itself would otherwise resurface in every property that compares,
\* prints or generates from schemas)
CallsWithOr(t) == Calls(t) \cup OrCalls \cup (IF t = "float" THEN {Call("value", <<VNan>>)} ELSE {})

Refinements(t) == {c \in Calls(t) : ~IsValueCall(c)}
ValueCalls(t) == {c \in Calls(t) : IsValueCall(c)}

=============================================================================
