---------------------------- MODULE Trace_Val ----------------------------
(***************************************************************************)
(* C02, C03 and C08 on recorded executions of the real validator.  One     *)
(* event per validate(schema, value):                                      *)
(*   s, v       abstract schema and value                                  *)
(*   exc        "" or the exception type validate() raised                 *)
(*   nerrs      number of errors in the real result                        *)
(*   eq         the real `schema == value`                                 *)
(*   rep        every real error could be abstracted                       *)
(*   errs       the abstracted errors [kind, path, actual, parameters]     *)
(*   facts      per error: [nonempty, names_path, located] -- the rendered *)
(*              message is non-empty / contains the formatted path / the   *)
(*              real th.get(value, error.path) is the reported sub-value   *)
(*   vof        validate_or_fail outcome: "true" | "exc:<n lines>" | other *)
(*   fmt_lines  number of lines of format_result (0 when no errors)        *)
(* Prop selects the property whose clauses decide the verdict.             *)
(***************************************************************************)
EXTENDS D42Findings, D42Format, D42TraceBase

CONSTANT Prop

VerdictC02(e) ==
  IF e.exc # "" THEN "FAIL:validate_raised:"
  ELSE IF (e.nerrs = 0) /\ ~Conforms(e.s, e.v) THEN "FAIL:accepts_nonconforming_value:"
  ELSE IF (e.nerrs # 0) /\ Conforms(e.s, e.v) THEN "FAIL:rejects_conforming_value:"
  ELSE IF e.eq # (e.nerrs = 0) THEN "FAIL:eq_operator_disagrees_with_validate:"
  ELSE "OK"

AlphabetRootPath(e, i) == e.errs[i].kind = "alphabet" /\ e.errs[i].path = <<>>

RECURSIVE FirstBadError(_, _)
FirstBadError(e, i) ==
  IF i > Len(e.errs) THEN "OK"
  ELSE IF ~e.facts[i].located
       THEN "FAIL:path_does_not_lead_to_reported_value:" \o
            (IF AlphabetRootPath(e, i) THEN "validate.alphabet_error_root_path" ELSE "")
  ELSE IF ~ErrorTrue(e.errs[i], e.v)
       THEN "FAIL:error_not_true_of_value:" \o
            (IF AlphabetRootPath(e, i) THEN "validate.alphabet_error_root_path" ELSE "")
  ELSE IF ~e.facts[i].nonempty THEN "FAIL:empty_message:"
  ELSE IF ~e.facts[i].names_path
       THEN "FAIL:message_does_not_name_path:" \o
            (IF AlphabetRootPath(e, i) THEN "validate.alphabet_error_root_path" ELSE "")
  ELSE IF ~MessageNamesPath(e.errs[i], e.facts[i].msg)
       THEN "FAIL:message_names_another_path:"
  ELSE FirstBadError(e, i + 1)

\* the errors of the validator used by substitution (d42/substitution/_validator.py)
RECURSIVE FirstBadSubError(_, _)
FirstBadSubError(e, i) ==
  IF i > Len(e.serrs) THEN "OK"
  ELSE IF ~e.slocated[i] THEN "FAIL:substitution_validator_path_does_not_lead_to_value:"
  ELSE IF ~ErrorTrue(e.serrs[i], e.v) THEN "FAIL:substitution_validator_error_not_true:"
  ELSE FirstBadSubError(e, i + 1)

VerdictC03(e) ==
  IF e.exc # "" THEN "SKIP:validate_raised"
  ELSE IF ~e.rep THEN "SKIP:error_not_abstractable"
  ELSE LET a == FirstBadError(e, 1)
       IN  IF a # "OK" THEN a
           ELSE IF e.sexc # "" \/ ~e.srep THEN "OK"
           ELSE FirstBadSubError(e, 1)

SigC08(e) ==
  IF e.exc \in {"OverflowError", "ValueError"} /\ FloatRoundKnown(e.s)
  THEN "validate.float_precision_round_raises" ELSE ""

RECURSIVE HasHugeInt(_)
\* an int too large for CPython to print (int -> str conversion limit, 4300 digits by default)
HasHugeInt(v) ==
  CASE v.k = "int" -> DAbs(v.n) = 3000
    [] v.k = "list" -> \E i \in DOMAIN v.items : HasHugeInt(v.items[i])
    [] v.k = "dict" -> \E i \in DOMAIN v.pairs : HasHugeInt(v.pairs[i].key) \/ HasHugeInt(v.pairs[i].val)
    [] OTHER -> FALSE
SigRender(e) == IF HasHugeInt(e.v) THEN "format.int_beyond_str_conversion_limit" ELSE ""

VerdictC08(e) ==
  IF e.exc # "" THEN "FAIL:validate_raised:" \o SigC08(e)
  ELSE IF \E i \in DOMAIN e.facts : ~e.facts[i].nonempty THEN "FAIL:error_does_not_render:" \o SigRender(e)
  ELSE IF e.nerrs = 0 /\ e.vof # "true" THEN "FAIL:validate_or_fail_without_errors:"
  ELSE IF e.nerrs # 0 /\ e.vof # "exc" THEN "FAIL:validate_or_fail_with_errors:" \o SigRender(e)
  ELSE IF e.nerrs # 0 /\ e.vof_lines # e.nerrs THEN "FAIL:validate_or_fail_line_count:"
  ELSE "OK"

Verdict(e) == CASE Prop = "C02" -> VerdictC02(e) [] Prop = "C03" -> VerdictC03(e) [] Prop = "C08" -> VerdictC08(e)

\* the operational validator model predicts the real outcome exactly
ErrKey(x) == <<x.kind, x.path>>
SubDrift(e) ==
  LET m == Errors(e.s, e.v, <<>>, "sub") IN
  /\ e.sexc = "" /\ e.srep /\ ~HasExc(m)
  /\ \/ Len(m) # Len(e.serrs)
     \/ \E i \in DOMAIN m : ErrKey(m[i]) # ErrKey(e.serrs[i])

Drift(e) ==
  LET o == ValidateOutcome(e.s, e.v) IN
  IF IsSome(o.exc) THEN e.exc # Get(o.exc)
  ELSE \/ e.exc # ""
       \/ e.nerrs # Len(o.errs)
       \/ e.rep /\ \E i \in DOMAIN o.errs : ErrKey(o.errs[i]) # ErrKey(e.errs[i])
       \/ (Prop = "C03" /\ SubDrift(e))
       \* wording of the messages (C03) and the header line of format_result (C08): what the
       \* library does today, demanded by no property
       \/ (Prop = "C03" /\ e.rep /\ \E i \in DOMAIN e.errs : ~MessageWellFormed(e.errs[i], e.facts[i].msg))
       \/ (Prop = "C08" /\ SigRender(e) = "" /\ e.fmt_lines # (IF e.nerrs = 0 THEN 0 ELSE e.nerrs + 1))

TraceNext == TraceStep(Verdict, Drift)

=============================================================================
