---------------------------- MODULE D42Equal ----------------------------
(***************************************************************************)
(* Operational model of schema == schema: same class and Props.__eq__,     *)
(* which compares the declared props with plain `!=`.  Where one side of   *)
(* that comparison is a schema and the other is not (an element list with  *)
(* `...`, an absent prop = Nil), Python falls into the schema-vs-value     *)
(* branch of ==, i.e. validate(schema, other): DEV_PropsEqSchemaVsValue.   *)
(***************************************************************************)
EXTENDS D42Combine, D42SchemaUniverse

\* validate(schema, x) has no errors, for the non-schema objects that can meet a schema
AcceptsObject(s, x) == DEV_PropsEqSchemaVsValue /\ Errors(s, x, <<>>, "val") = <<>>

OptValueEq(a, b) == (IsNone(a) /\ IsNone(b)) \/ (IsSome(a) /\ IsSome(b) /\ VEq(Get(a), Get(b)))
OptPatEq(a, b) == (IsNone(a) /\ IsNone(b)) \/ (IsSome(a) /\ IsSome(b) /\ Get(a) = Get(b))

RECURSIVE SEq(_, _)

MemberEq(x, y) ==          \* a schema or the `...` marker on either side
  IF IsEll(x) /\ IsEll(y) THEN TRUE
  ELSE IF IsEll(x) THEN AcceptsObject(y, VEllipsis)
  ELSE IF IsEll(y) THEN AcceptsObject(x, VEllipsis)
  ELSE SEq(x, y)

OptSchemaEq(a, b) ==
  IF IsNone(a) /\ IsNone(b) THEN TRUE
  ELSE IF IsSome(a) /\ IsSome(b) THEN SEq(Get(a), Get(b))
  ELSE IF IsSome(a) THEN AcceptsObject(Get(a), VNil) ELSE AcceptsObject(Get(b), VNil)

SEq(s1, s2) ==
  /\ s1.t = s2.t
  /\ CASE s1.t = "none" -> TRUE
       [] s1.t \in {"bool", "bytes", "uuid4", "datetime", "date"} -> OptValueEq(s1.value, s2.value)
       [] s1.t = "int" -> OptValueEq(s1.value, s2.value) /\ OptValueEq(s1.min, s2.min) /\ OptValueEq(s1.max, s2.max)
       [] s1.t = "float" -> /\ OptValueEq(s1.value, s2.value) /\ OptValueEq(s1.min, s2.min)
                            /\ OptValueEq(s1.max, s2.max) /\ OptValueEq(s1.precision, s2.precision)
       [] s1.t = "str" -> /\ OptValueEq(s1.value, s2.value) /\ OptValueEq(s1.len, s2.len)
                          /\ OptValueEq(s1.min_len, s2.min_len) /\ OptValueEq(s1.max_len, s2.max_len)
                          /\ OptValueEq(s1.alphabet, s2.alphabet) /\ OptValueEq(s1.substr, s2.substr)
                          /\ OptPatEq(s1.pattern, s2.pattern)
       [] s1.t = "list" ->
            /\ OptSchemaEq(s1.type, s2.type)
            /\ (IsNone(s1.elems) /\ IsNone(s2.elems)) \/
               (IsSome(s1.elems) /\ IsSome(s2.elems) /\ Len(Get(s1.elems)) = Len(Get(s2.elems))
                /\ \A i \in DOMAIN Get(s1.elems) : MemberEq(Get(s1.elems)[i], Get(s2.elems)[i]))
            /\ OptValueEq(s1.len, s2.len) /\ OptValueEq(s1.min_len, s2.min_len)
            /\ OptValueEq(s1.max_len, s2.max_len)
       [] s1.t = "dict" ->
            (IsNone(s1.keys) /\ IsNone(s2.keys)) \/
            (IsSome(s1.keys) /\ IsSome(s2.keys) /\ Len(Get(s1.keys)) = Len(Get(s2.keys))
             /\ \A i \in DOMAIN Get(s1.keys) :
                   LET k == Get(s1.keys)[i] IN
                   /\ KeysHas(Get(s2.keys), k.key)
                   /\ LET o == Get(s2.keys)[KeyIdx(Get(s2.keys), k.key)]
                      IN  k.opt = o.opt /\ MemberEq(k.val, o.val))
       [] s1.t = "any" ->
            (IsNone(s1.types) /\ IsNone(s2.types)) \/
            (IsSome(s1.types) /\ IsSome(s2.types) /\ Len(Get(s1.types)) = Len(Get(s2.types))
             /\ \A i \in DOMAIN Get(s1.types) : SEq(Get(s1.types)[i], Get(s2.types)[i]))
       [] s1.t = "alias" -> s1.name = s2.name /\ SEq(s1.type, s2.type)
       [] s1.t = "custom" -> SEq(s1.inner, s2.inner)

(***************************************************************************)
(* The universe equality is examined on: DSL-reachable scalars and         *)
(* containers whose members include the bare `any` (the only built-in that *)
(* accepts a non-schema marker).                                           *)
(***************************************************************************)
RECURSIVE Reach(_, _)
Reach(t, d) == IF d = 0 THEN {Bare(t)}
               ELSE LET R == Reach(t, d - 1)
                    IN  R \cup {Apply(x, cc).s : <<x, cc>> \in {p \in R \X Calls(t) : Apply(p[1], p[2]).ok}}

EqMembers == {SInt1, SStrAB, BareAny}
EqUniverse(d) ==
  UNION {Reach(t, d) : t \in {"int", "float", "str", "bool", "bytes", "uuid4", "datetime", "date"}}
  \cup {BareNone}
  \cup ListsOver(EqMembers \cup {BareInt}, EqMembers) \cup DictsOver(EqMembers) \cup AnysOver(EqMembers)
  \cup {SAlias("T", SInt1), SAlias("T", SStrAB), SAlias("U", SInt1), SCustom(SInt1), SCustom(SStrAB)}
  \* unions of four (written, by the construction routes, also as (a | b) | (c | d)) and single-member variants
  \cup {AnyOf(<<SInt1, SStrAB, BareNone, BareBool>>), AnyOf(<<SInt1, BareInt, BareNone, BareBool>>),
        AnyOf(<<SInt1, SStrAB, BareNone, BareNone>>), AnyOf(<<SInt1, BareNone, BareBool>>)}

=============================================================================
