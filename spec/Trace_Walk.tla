---------------------------- MODULE Trace_Walk ----------------------------
(***************************************************************************)
(* Recorded runs of the real directory walk: one event per tree, listing    *)
(* for each file where it was placed, what it was, and whether its bytes    *)
(* changed (and, if so, whether the new text is the rewrite of the old).    *)
(***************************************************************************)
EXTENDS MC_WalkOps, D42TraceBase

Verdict(e) ==
  IF e.exc # "" THEN "FAIL:walk_raised:"
  ELSE IF \E j \in DOMAIN e.files : e.files[j].changed /\ ~MustRewrite(e.files[j])
       THEN "FAIL:file_outside_the_walk_was_modified:"
  ELSE IF \E j \in DOMAIN e.files : MustRewrite(e.files[j]) /\ ~e.files[j].changed
       THEN "FAIL:eligible_file_not_rewritten:"
  ELSE IF \E j \in DOMAIN e.files : e.files[j].changed /\ ~e.files[j].rewrite_ok
       THEN "FAIL:file_content_is_not_the_rewrite:"
  ELSE "OK"

Drift(e) == FALSE

TraceNext == TraceStep(Verdict, Drift)

=============================================================================
