---------------------------- MODULE Trace_Walk ----------------------------
(***************************************************************************)
(* Recorded runs of the real directory walk: one event per tree, listing    *)
(* for each file where it was placed, what it was, and whether its bytes    *)
(* changed (and, if so, whether the new text is the rewrite of the old).    *)
(***************************************************************************)
EXTENDS MC_WalkOps, D42TraceBase

Verdict(e) ==
  \* "rewrites imports and nothing else": a file that is not a Python module readable as UTF-8 with a
  \* v1 import in it has nothing to rewrite, wherever it lies
  IF \E j \in DOMAIN e.files : e.files[j].changed /\ ~Rewritable(e.files[j])
       THEN "FAIL:file_without_v1_imports_was_modified:"
  ELSE IF \E j \in DOMAIN e.files : e.files[j].changed /\ ~e.files[j].rewrite_ok
       THEN "FAIL:file_content_is_not_the_rewrite:"
  ELSE "OK"

\* which directories the walk enters and that it survives every tree: the tool's policy today
Drift(e) ==
  \/ e.exc # ""
  \/ \E j \in DOMAIN e.files : e.files[j].changed # MustRewrite(e.files[j])

TraceNext == TraceStep(Verdict, Drift)

=============================================================================
