---------------------------- MODULE MC_Seed ----------------------------
(***************************************************************************)
(* C17: seeded generation is reproducible.                                 *)
(*                                                                         *)
(* The RNG is a function of (seed, position): after set_seed(k) the n-th   *)
(* draw is Stream(k, n).  An interpreter configuration (its hash           *)
(* randomisation) is part of the state, and the generator model does not   *)
(* take it as an argument -- except at the sites listed by ReadsEnv, which *)
(* model draws whose candidates come out of a hash-ordered container.      *)
(* Non-interference: the outputs of a run do not depend on the             *)
(* configuration.  The machine picks a seed and a sequence of schemas      *)
(* (chosen so that every draw site of D42Generate / D42Regex is exercised) *)
(* and runs it under every configuration.                                  *)
(***************************************************************************)
EXTENDS D42Seed

CONSTANTS Configs, Seeds, MaxSeq

VARIABLES seed, seq, out

vars == <<seed, seq, out>>

RECURSIVE RunFrom(_, _, _, _, _)
\* values of seq[i..] generated one after the other from the stream, under configuration c
RunFrom(c, i, tape, p, acc) ==
  IF i > Len(seq) THEN acc
  ELSE LET g == Gen(SchemaOf(seq[i]), tape, p)
           v == IF g.ok THEN g.v ELSE [k |-> "raised", exc |-> g.exc]
       IN  RunFrom(c, i + 1, tape, g.p,
                   Append(acc, [v |-> v, env |-> IF ReadsEnv(seq[i]) THEN c ELSE 0]))

Init == /\ seed \in Seeds
        /\ seq \in {<<a>> : a \in SeedSchemas \cup SeedSums \cup SeedHelpers} \cup
                   (IF MaxSeq >= 2
                    THEN {<<a, b>> : a \in SeedSchemas \cup SeedSums,
                                     b \in {SInt05, SStrAlpha, [BareStr EXCEPT !.pattern = Some(RxNeg)], SOpen33}}
                    ELSE {})
        /\ out = <<>>

Run == /\ out = <<>>
       /\ out' = [c \in Configs |-> RunFrom(c, 1, TapeOfSeed(seed), 0, <<>>)]
       /\ UNCHANGED <<seed, seq>>

Next == Run

KnownSetOrder == \E i \in DOMAIN seq : ReadsEnv(seq[i])

C17_ConfigurationDoesNotMatter ==
  out # <<>> => (\A c1, c2 \in Configs : out[c1] = out[c2]) \/ KnownSetOrder

\* same process, same seed, same sequence: the model is a function
C17_Repeatable ==
  out # <<>> => \A c \in Configs : out[c] = RunFrom(c, 1, TapeOfSeed(seed), 0, <<>>)

=============================================================================
