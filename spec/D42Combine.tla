---------------------------- MODULE D42Combine ----------------------------
(***************************************************************************)
(* Operational models of the schema combinators:  a | b and schema.any,    *)
(* d1 + d2, make_required, schema.alias, d[key], keys()/iteration.         *)
(***************************************************************************)
EXTENDS D42Substitute

\* a | b  ==  schema.any(a, b)
Union(a, b) == AnyValueCall(BareAny, <<ASchema(a), ASchema(b)>>)
AnyN(ts) == AnyValueCall(BareAny, [i \in DOMAIN ts |-> ASchema(ts[i])])

\* d1 + d2: {**self_keys, **other_keys} -- right operand wins, positions of d1 kept
RECURSIVE MergeKeys(_, _, _)
MergeKeys(acc, other, i) == IF i > Len(other) THEN acc ELSE MergeKeys(KeysPut(acc, other[i]), other, i + 1)
Add(d1, d2) ==
  IF d2.t # "dict" THEN SErr("TypeError")
  ELSE SOk([d1 EXCEPT !.keys = Some(MergeKeys(IF IsSome(d1.keys) THEN Get(d1.keys) ELSE <<>>,
                                              IF IsSome(d2.keys) THEN Get(d2.keys) ELSE <<>>, 1))])

\* make_required(d, keys): keys = NoneOpt means all
MakeRequired(d, ks) ==
  IF d.t # "dict" THEN SErr("DeclarationError")
  ELSE LET have == IF IsSome(d.keys) THEN Get(d.keys) ELSE <<>>
           want == IF IsSome(ks) THEN Get(ks) ELSE [i \in DOMAIN have |-> have[i].key]
       IN  IF \E i \in DOMAIN want : ~KeysHas(have, want[i]) THEN SErr("DeclarationError")
           ELSE IF IsNone(d.keys) THEN SOk(d)
           ELSE SOk([d EXCEPT !.keys = Some([i \in DOMAIN have |->
                        [have[i] EXCEPT !.opt = IF SeqHas(want, have[i].key) \/ (\E j \in DOMAIN want : VEq(want[j], have[i].key))
                                                THEN FALSE ELSE have[i].opt]])])

\* d[key]
GetItem(d, key) ==
  IF IsNone(d.keys) \/ IsEll(key) \/ ~KeysHas(Get(d.keys), key) THEN SErr("KeyError")
  ELSE SOk(Get(d.keys)[KeyIdx(Get(d.keys), key)].val)

DictKeys(d) == IF IsNone(d.keys) THEN <<>> ELSE [i \in DOMAIN Get(d.keys) |-> Get(d.keys)[i].key]
AnyIter(a) == IF IsNone(a.types) THEN <<>> ELSE Get(a.types)

(***************************************************************************)
(* What the combinations are supposed to mean (from the property text)     *)
(***************************************************************************)
\* a dict schema with d1's keys overridden and extended by d2's keys, relaxed if either is
AddMeaning(d1, d2, v0) ==
  LET v == Base(v0)
      k1 == IF IsSome(d1.keys) THEN Get(d1.keys) ELSE <<>>
      k2 == IF IsSome(d2.keys) THEN Get(d2.keys) ELSE <<>>
      entry(key) == IF KeysHas(k2, key) THEN k2[KeyIdx(k2, key)] ELSE k1[KeyIdx(k1, key)]
      declared(key) == KeysHas(k1, key) \/ KeysHas(k2, key)
      allkeys == {k1[i].key : i \in DOMAIN k1} \cup {k2[i].key : i \in DOMAIN k2}
  IN  /\ IsA(v0, "dict")
      \* an operand without declared keys contributes no keys (and is not `relaxed`)
      /\ \A key \in allkeys :
            IsEll(key) \/ IF DictHas(v.pairs, key)
                          THEN Conforms(entry(key).val, DictGet(v.pairs, key))
                          ELSE entry(key).opt
      /\ IsRelaxed(k1) \/ IsRelaxed(k2) \/ \A j \in DOMAIN v.pairs : declared(v.pairs[j].key)

MakeRequiredMeaning(d, ks, v0) ==
  LET have == IF IsSome(d.keys) THEN Get(d.keys) ELSE <<>>
      want == IF IsSome(ks) THEN Get(ks) ELSE [i \in DOMAIN have |-> have[i].key]
  IN  /\ Conforms(d, v0)
      /\ \A i \in DOMAIN want : IsEll(want[i]) \/ DictHas(Base(v0).pairs, want[i])

=============================================================================
