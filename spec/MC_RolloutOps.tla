---------------------------- MODULE MC_RolloutOps ----------------------------
(***************************************************************************)
(* Trees, flattening and the operational model of d42.utils.rollout        *)
(* (shared by the machine MC_Rollout and the trace specification).         *)
(***************************************************************************)
EXTENDS Integers, Sequences, FiniteSets, TLC

CONSTANTS Labels

Leaf(p) == [leaf |-> TRUE, pay |-> p]
Node(t) == [leaf |-> FALSE, sub |-> t]
Entry(l, o, s) == [lab |-> l, opt |-> o, sub |-> s]

(***************************************************************************)
(* trees: sets of 1..2 entries with distinct (label, optional) keys;       *)
(* payloads are filled in afterwards (each leaf's payload is its own path) *)
(***************************************************************************)
LeafSlots == {Entry(l, o, Leaf(0)) : l \in Labels, o \in BOOLEAN}
Pairs(S) == {{x} : x \in S} \cup {{x, y} : x, y \in S}
KeyOf(e) == <<e.lab, e.opt>>
WellKeyed(t) == \A x, y \in t : KeyOf(x) = KeyOf(y) => x = y

RECURSIVE TreesOf(_)
TreesOf(d) ==
  IF d = 0 THEN {t \in Pairs(LeafSlots) : WellKeyed(t)}
  ELSE LET below == TreesOf(d - 1)
           \* keep the nested level small: single-entry subtrees and two-leaf subtrees
           subs == {t \in below : Cardinality(t) = 1 \/ \A e \in t : e.sub.leaf}
           slots == LeafSlots \cup {Entry(l, FALSE, Node(t)) : l \in Labels, t \in subs}
       IN  {t \in Pairs(slots) : WellKeyed(t)}

RECURSIVE CountLeaves(_)
SumOver(S, F(_)) == LET RECURSIVE Acc(_)
                        Acc(R) == IF R = {} THEN 0 ELSE LET x == CHOOSE x \in R : TRUE IN F(x) + Acc(R \ {x})
                    IN  Acc(S)
CountLeaves(t) == SumOver(t, LAMBDA e : IF e.sub.leaf THEN 1 ELSE CountLeaves(e.sub.sub))

RECURSIVE Stamp(_, _)
\* give every leaf the path that leads to it as its payload (all payloads distinct)
Stamp(t, prefix) ==
  {IF e.sub.leaf THEN Entry(e.lab, e.opt, Leaf(Append(prefix, <<e.lab, e.opt>>)))
   ELSE Entry(e.lab, e.opt, Node(Stamp(e.sub.sub, Append(prefix, <<e.lab, e.opt>>)))) : e \in t}

(***************************************************************************)
(* flattening                                                              *)
(***************************************************************************)
Flat(path, opt, pay) == [path |-> path, opt |-> opt, pay |-> pay]

RECURSIVE Flatten(_, _)
Flatten(t, prefix) ==
  UNION {IF e.sub.leaf THEN {Flat(Append(prefix, e.lab), e.opt, e.sub.pay)}
         ELSE Flatten(e.sub.sub, Append(prefix, e.lab)) : e \in t}

(***************************************************************************)
(* rollout as written                                                      *)
(*   updated: sequence of [key, opt, isgroup, pay, group] in insertion     *)
(*   order; a group is a sequence of flat entries (the tails)              *)
(***************************************************************************)
Slot(key, opt, isgroup, pay, group) == [key |-> key, opt |-> opt, isgroup |-> isgroup, pay |-> pay, group |-> group]
HasKey(tab, key, opt) == \E i \in DOMAIN tab : tab[i].key = key /\ tab[i].opt = opt
IdxOf(tab, key, opt) == CHOOSE i \in DOMAIN tab : tab[i].key = key /\ tab[i].opt = opt

\* one iteration of the for-loop over the flat mapping
ConsumeInto(tab, f) ==
  IF Len(f.path) = 1
  THEN \* updated[optional(key) if is_optional else key] = val
       IF HasKey(tab, f.path[1], f.opt)
       THEN [tab EXCEPT ![IdxOf(tab, f.path[1], f.opt)] = Slot(f.path[1], f.opt, FALSE, f.pay, <<>>)]
       ELSE Append(tab, Slot(f.path[1], f.opt, FALSE, f.pay, <<>>))
  ELSE \* if key not in updated: updated[key] = {};  updated[key][tail] = val
       LET head == f.path[1]
           tail == Flat(Tail(f.path), f.opt, f.pay)
       IN  IF HasKey(tab, head, FALSE)
           THEN [tab EXCEPT ![IdxOf(tab, head, FALSE)].group = Append(@, tail)]
           ELSE Append(tab, Slot(head, FALSE, TRUE, 0, <<tail>>))

RECURSIVE RollSeq(_, _, _), TableToTree(_)
\* rollout of a group: its entries in insertion order
RollSeq(flats, i, tab) == IF i > Len(flats) THEN TableToTree(tab) ELSE RollSeq(flats, i + 1, ConsumeInto(tab, flats[i]))
\* the final loop: every dict value is rolled out recursively
TableToTree(tab) ==
  {IF tab[i].isgroup THEN Entry(tab[i].key, tab[i].opt, Node(RollSeq(tab[i].group, 1, <<>>)))
   ELSE Entry(tab[i].key, tab[i].opt, Leaf(tab[i].pay)) : i \in DOMAIN tab}


=============================================================================
