---------------------------- MODULE PathHeap ----------------------------
(***************************************************************************)
(* The mutable-path discipline behind C03.                                 *)
(*                                                                         *)
(* th.PathHolder is a mutable object: indexing it (`path[i]`) appends an   *)
(* accessor *in place* and returns the same object.  Validation errors     *)
(* keep a *reference* to the path object they were given.  The validator   *)
(* therefore copies the path before every descent                          *)
(* (`nested_path = deepcopy(path)[index]`); this module models that heap   *)
(* of path objects explicitly, with the switch CopyOnDescend, and shows    *)
(* what the copy is for: with it, every error's path is the position it    *)
(* was raised at; without it, siblings leak into each other's paths.       *)
(*                                                                         *)
(* The value being validated is a tree of nested lists whose leaves are    *)
(* good or bad; the validator is a depth-first traversal kept as an        *)
(* explicit stack of frames.                                               *)
(***************************************************************************)
EXTENDS Integers, Sequences, FiniteSets, TLC

CONSTANTS CopyOnDescend,   \* BOOLEAN
          MaxDepth, MaxFan

VARIABLES tree,     \* the value: [leaf |-> TRUE, bad |-> BOOLEAN] | [leaf |-> FALSE, kids |-> Seq(tree)]
          heap,     \* path objects: Seq of Seq(Nat); a path object is identified by its index
          stack,    \* frames [node, pathid, next, pos]: pos is the true position (ghost)
          errors    \* reported errors: [pathid, pos]: the object reference and the true position

vars == <<tree, heap, stack, errors>>

Leaf(b) == [leaf |-> TRUE, bad |-> b]
Node(ks) == [leaf |-> FALSE, kids |-> ks]

RECURSIVE Trees(_)
Trees(d) == IF d = 0 THEN {Leaf(TRUE), Leaf(FALSE)}
            ELSE LET sub == Trees(d - 1)
                 IN  {Leaf(TRUE), Leaf(FALSE)} \cup {Node(<<a>>) : a \in sub}
                     \cup (IF MaxFan >= 2 THEN {Node(<<a, b>>) : a, b \in sub} ELSE {})

Frame(n, pid, nxt, pos) == [node |-> n, pathid |-> pid, next |-> nxt, pos |-> pos]

Init == /\ tree \in Trees(MaxDepth)
        /\ heap = <<<<>>>>                       \* the root path object, empty
        /\ stack = <<Frame(tree, 1, 1, <<>>)>>
        /\ errors = <<>>

Top == stack[Len(stack)]
Pop == SubSeq(stack, 1, Len(stack) - 1)

\* a bad leaf reports an error holding a reference to the path object it was given
Report ==
  /\ stack # <<>> /\ Top.node.leaf
  /\ errors' = IF Top.node.bad THEN Append(errors, [pathid |-> Top.pathid, pos |-> Top.pos]) ELSE errors
  /\ stack' = Pop
  /\ UNCHANGED <<tree, heap>>

\* descend into the next child: nested_path = deepcopy(path)[index]   (or path[index] without the copy)
Descend ==
  /\ stack # <<>> /\ ~Top.node.leaf /\ Top.next <= Len(Top.node.kids)
  /\ LET i == Top.next
         child == Top.node.kids[i]
         advanced == [stack EXCEPT ![Len(stack)].next = i + 1]
     IN  IF CopyOnDescend
         THEN /\ heap' = Append(heap, Append(heap[Top.pathid], i - 1))
              /\ stack' = Append(advanced, Frame(child, Len(heap) + 1, 1, Append(Top.pos, i - 1)))
         ELSE /\ heap' = [heap EXCEPT ![Top.pathid] = Append(@, i - 1)]      \* appended in place
              /\ stack' = Append(advanced, Frame(child, Top.pathid, 1, Append(Top.pos, i - 1)))
  /\ UNCHANGED <<tree, errors>>

Return ==
  /\ stack # <<>> /\ ~Top.node.leaf /\ Top.next > Len(Top.node.kids)
  /\ stack' = Pop
  /\ UNCHANGED <<tree, heap, errors>>

Next == Report \/ Descend \/ Return

Done == stack = <<>>

\* what a reader of an error sees when it follows the reference
PathOf(e) == heap[e.pathid]

\* every error's path is the position it was raised at -- now and at every later moment
ErrorsPointAtTheirValue == \A i \in DOMAIN errors : PathOf(errors[i]) = errors[i].pos

\* the errors of the finished validation, as (path read through the reference) pairs
FinalPaths == [i \in DOMAIN errors |-> PathOf(errors[i])]

=============================================================================
