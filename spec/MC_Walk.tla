---------------------------- MODULE MC_Walk ----------------------------
(***************************************************************************)
(* The `d42 v1-to-v2 <directory>` walk (d42/_main.py, migrate_v1_to_v2):   *)
(* a small file-system machine.  A tree is a set of files, each placed in   *)
(* the root, a plain sub-directory, a hidden directory (name starts with    *)
(* a dot), a __pycache__ directory, or a plain directory *below* a hidden   *)
(* one; each file is Python source or not, and either holds a v1 import or  *)
(* not.  The walk must rewrite exactly the Python files that are reachable  *)
(* without entering a hidden or __pycache__ directory and that import a v1  *)
(* name, and leave every other file byte-for-byte alone.                    *)
(***************************************************************************)
EXTENDS MC_WalkOps, FiniteSetsExt

CONSTANT MaxFiles

VARIABLES tree, done, rewritten

\* (k-subsets, not a filter over SUBSET AllFiles: 2^56 candidates)
Init == /\ tree \in UNION {kSubset(k, AllFiles) : k \in 1..MaxFiles}
        /\ done = FALSE
        /\ rewritten = {}

\* os.walk with hidden and __pycache__ directories pruned; every .py file processed
Walk == /\ ~done
        /\ done' = TRUE
        /\ rewritten' = {f \in tree : MustRewrite(f)}
        /\ UNCHANGED tree

Next == Walk

OnlyEligibleFilesChange == done => \A f \in tree : (f \in rewritten) = MustRewrite(f)

=============================================================================
