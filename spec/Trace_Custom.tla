---------------------------- MODULE Trace_Custom ----------------------------
(***************************************************************************)
(* C16 on recorded executions.  One event per (plain tree s, wrapped tree  *)
(* w): both were built on the real code, w with a registered forwarding    *)
(* CustomSchema at the chosen positions.                                   *)
(*   repr_same   the printed forms are identical                           *)
(*   vals   per probe value: [errs_same (same error kinds, paths, reported *)
(*          sub-values, parameters), msgs_same (same rendered messages)]   *)
(*   gens   per constant tape: [exc_w, exc_p, same_value, plain_accepts,   *)
(*          plain_own_ok (the plain tree accepts what it generates itself)] *)
(*   subs   per probe value: [exc_w, exc_p, res_same (results equal up to  *)
(*          the wrappers), repr_same]                                      *)
(*   built_flat  (only for the any-of-wrapped-any construction) whether    *)
(*          the real schema.any flattened through the wrapper              *)
(***************************************************************************)
EXTENDS D42Represent, D42TraceBase

RECURSIVE StripT(_)
StripT(x) ==
  CASE x.t = "custom" -> StripT(x.inner)
    [] x.t = "list" -> [x EXCEPT !.type = IF IsSome(x.type) THEN Some(StripT(Get(x.type))) ELSE NoneOpt,
                                 !.elems = IF IsSome(x.elems)
                                           THEN Some([i \in DOMAIN Get(x.elems) |->
                                                        IF IsEll(Get(x.elems)[i]) THEN VEllipsis ELSE StripT(Get(x.elems)[i])])
                                           ELSE NoneOpt]
    [] x.t = "dict" -> [x EXCEPT !.keys = IF IsSome(x.keys)
                                          THEN Some([i \in DOMAIN Get(x.keys) |->
                                                       IF IsEll(Get(x.keys)[i].key) THEN Get(x.keys)[i]
                                                       ELSE [Get(x.keys)[i] EXCEPT !.val = StripT(Get(x.keys)[i].val)]])
                                          ELSE NoneOpt]
    [] x.t = "any" -> [x EXCEPT !.types = IF IsSome(x.types)
                                          THEN Some([i \in DOMAIN Get(x.types) |-> StripT(Get(x.types)[i])])
                                          ELSE NoneOpt]
    [] x.t = "alias" -> [x EXCEPT !.type = StripT(x.type)]
    [] OTHER -> x

\* an any whose alternative is a wrapped any: d42 flattens nested any only through built-ins
HasWrappedAnyInAny(x) ==
  \E y \in SubSchemas(x) : y.t = "any" /\ IsSome(y.types) /\
     \E i \in DOMAIN Get(y.types) : Get(y.types)[i].t = "custom" /\ StripT(Get(y.types)[i]).t = "any"
                                    /\ IsSome(StripT(Get(y.types)[i]).types)
Sig(e) == IF HasWrappedAnyInAny(e.w) THEN "custom.any_not_flattened_through_wrapper" ELSE ""

Verdict(e) ==
  IF ~e.flat_pair /\ StripT(e.w) # e.s THEN "SKIP:pairing_not_representable"
  ELSE IF ~e.repr_same THEN "FAIL:printed_form_differs:" \o Sig(e)
  ELSE IF \E j \in DOMAIN e.vals : ~e.vals[j].errs_same THEN "FAIL:validation_errors_differ:" \o Sig(e)
  ELSE IF \E j \in DOMAIN e.vals : ~e.vals[j].msgs_same THEN "FAIL:validation_messages_differ:" \o Sig(e)
  ELSE IF \E j \in DOMAIN e.gens : e.gens[j].exc_w # e.gens[j].exc_p THEN "FAIL:generation_outcome_differs:"
  ELSE IF \E j \in DOMAIN e.gens : e.gens[j].exc_w = "" /\ ~e.gens[j].plain_accepts /\ e.gens[j].plain_own_ok
       THEN "FAIL:generated_value_rejected_by_plain_tree:"
  ELSE IF \E j \in DOMAIN e.subs : e.subs[j].exc_w # e.subs[j].exc_p THEN "FAIL:substitution_outcome_differs:"
  ELSE IF \E j \in DOMAIN e.subs : e.subs[j].exc_w = "" /\ (~e.subs[j].res_same \/ ~e.subs[j].repr_same)
       THEN "FAIL:substitution_result_differs:" \o Sig(e)
  ELSE "OK"

\* under one scripted tape the wrapped and the plain tree draw alike and generate the same value --
\* what the code does today; C16 asks for conforming values only
Drift(e) == Sig(e) = "" /\ \E j \in DOMAIN e.gens : e.gens[j].exc_w = "" /\ e.gens[j].exc_p = "" /\ ~e.gens[j].same_value

TraceNext == TraceStep(Verdict, Drift)

=============================================================================
