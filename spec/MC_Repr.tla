---------------------------- MODULE MC_Repr ----------------------------
(***************************************************************************)
(* C06: repr(schema) is DSL source that rebuilds an equal schema.          *)
(* Scalars come from the DSL machine (every state reachable by <= Depth    *)
(* calls -- where "reachable by some order" meets "printed in one          *)
(* canonical order"), containers from the universe, plus results of + and  *)
(* make_required.  Two steps per schema so the invariant is evaluated by   *)
(* all workers.                                                            *)
(***************************************************************************)
EXTENDS D42Represent

CONSTANT Depth

VARIABLES s, phase

ScalarTypes == {"int", "float", "str", "bool", "bytes", "uuid4", "datetime", "date"}
\* keys of other hashable kinds, nesting with indentation, empty containers with lengths
KeyZoo == DictOf(<<DKey(VInt(1), SInt1, FALSE), DKey(VNone, SStrAB, TRUE), DKey(VBool(FALSE), BareInt, FALSE),
                   DKey(VBytes(<<97>>), BareStr, TRUE), DKey(VFloat(150), BareNone, FALSE)>>)
Extra == { KeyZoo, [ElemsList(<<>>) EXCEPT !.len = Some(VInt(0))],
           [ElemsList(<<>>) EXCEPT !.max_len = Some(VInt(2))],
           ElemsList(<<KeyZoo, ElemsList(<<R_Dict, VEllipsis>>)>>),
           DictOf(<<DKey(KA, ElemsList(<<VEllipsis, R_Dict, VEllipsis>>), TRUE), DKey(VEllipsis, VEllipsis, FALSE)>>) }
Sums == {Add(x, y).s : x \in {R_Dict, R_DictRelaxed, BareDict}, y \in {R_Dict, R_DictRelaxed, KeyZoo}}
Requireds == {MakeRequired(x, NoneOpt).s : x \in {R_Dict, R_DictRelaxed, KeyZoo}}

\* an alias prints as Name<...> and a custom type as it pleases: neither is meant to be evaluated
Printable(x) == \A y \in SubSchemas(x) : y.t \notin {"alias", "custom"}
U == UNION {Reach(t, Depth) : t \in ScalarTypes} \cup {BareNone}
     \cup Level1 \cup Level2 \cup {x \in Focus : Printable(x)} \cup Extra \cup Sums \cup Requireds

Init == s \in U /\ phase = "picked"
Next == phase = "picked" /\ phase' = "printed" /\ UNCHANGED s

KnownEmptyListLen(x) == x.t = "list" /\ IsSome(x.elems) /\ Get(x.elems) = <<>>
                        /\ (IsSome(x.len) \/ IsSome(x.min_len) \/ IsSome(x.max_len))

C06_ReprRoundTrips ==
  phase = "printed" =>
     \A x \in SubSchemas(s) : ReprRoundTrips(x) \/ (DEV_ReprEmptyListDropsLen /\ KnownEmptyListLen(x))

=============================================================================
