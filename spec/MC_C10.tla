---------------------------- MODULE MC_C10 ----------------------------
(***************************************************************************)
(* The declaration DSL as a transition system (C10).                       *)
(*                                                                         *)
(* A schema under construction starts bare and moves through refinement    *)
(* calls; a refused call is a dead end (the receiver must be unchanged,    *)
(* which the conformance harness observes on the real objects).  TLC       *)
(* explores every chain of <= Depth calls over the argument universe       *)
(* below: valid, boundary, contradictory and wrongly-typed arguments.      *)
(* Every state records the last transition, so each exported state is one  *)
(* test case (receiver chain, call, predicted outcome) for the harness.    *)
(***************************************************************************)
EXTENDS D42Validate

CONSTANTS Depth, Types

VARIABLES s,       \* the schema built so far (receiver of the next call)
          prev,    \* the receiver of the last call
          chain,   \* calls applied so far, including a refused last one
          last,    \* NoneOpt | Some([c |-> call, out |-> Apply outcome])
          dead     \* the last call was refused

vars == <<s, prev, chain, last, dead>>

T(str) == [i \in 1..Len(str) |-> str[i]]   \* placeholder to keep text literals readable
A == 97
B == 98
C == 99

(***************************************************************************)
(* Argument universes                                                      *)
(***************************************************************************)
WrongCommon == {VNone, VEllipsis, VNil}

IntArgs == {VInt(0), VInt(5), VInt(-5), VInt(INT_MAX), VBool(TRUE)}
           \cup {VFloat(500), VStr(<<A>>)} \cup WrongCommon
IntCalls == {Call(m, <<a>>) : m \in {"value", "min", "max"}, a \in IntArgs}

FloatArgs == {VFloat(0), VFloat(525), VFloat(-525), VFloat(25)}
             \cup {VInt(5), VBool(TRUE), VStr(<<A>>)} \cup {VNone, VEllipsis}
PrecArgs == {VInt(0), VInt(1), VInt(2), VInt(15), VInt(16), VBool(TRUE), VFloat(100), VNone}
FloatCalls == {Call(m, <<a>>) : m \in {"value", "min", "max"}, a \in FloatArgs}
              \cup {Call("precision", <<a>>) : a \in PrecArgs}

StrVals == {VStr(<<>>), VStr(<<A, B>>), VStr(<<A, B, C>>)}
LenNs == {VInt(0), VInt(2), VInt(3)}
StrLenCalls ==
  {Call("len", <<n>>) : n \in LenNs \cup {VInt(-1), VBool(TRUE), VStr(<<A>>), VFloat(200)}}
  \cup {Call("len", <<n, VEllipsis>>) : n \in LenNs \cup {VNone}}
  \cup {Call("len", <<VEllipsis, n>>) : n \in {VInt(2), VInt(3), VStr(<<A>>)}}
  \cup {Call("len", <<VEllipsis>>), Call("len", <<VEllipsis, VEllipsis>>)}
  \cup {Call("len", <<VInt(0), VInt(2)>>), Call("len", <<VInt(2), VInt(3)>>),
        Call("len", <<VInt(3), VInt(2)>>), Call("len", <<VInt(2), VStr(<<A>>)>>),
        Call("len", <<VStr(<<A>>), VInt(2)>>)}
PatAPlus == VPat(RRep(RLit(A), 1, INF, FALSE))                         \* a+
PatAbAnch == VPat(RSeq(<<RStart, RLit(A), RLit(B), REnd>>))            \* ^ab$
PatC == VPat(RLit(C))                                                  \* c
StrCalls ==
  {Call("value", <<v>>) : v \in StrVals \cup {VInt(1), VNone, VBytes(<<A>>)}}
  \cup StrLenCalls
  \cup {Call("alphabet", <<v>>) : v \in {VStr(<<A, B>>), VStr(<<A, B, C>>), VStr(<<>>), VInt(1)}}
  \cup {Call("contains", <<v>>) : v \in {VStr(<<B>>), VStr(<<C>>), VStr(<<>>), VNone}}
  \cup {Call("regex", <<v>>) : v \in {PatAPlus, PatAbAnch, PatC, VBadPat("error"),
                                      VBadPat("overflow"), VInt(1)}}

BoolCalls == {Call("value", <<v>>) : v \in {VBool(TRUE), VBool(FALSE), VInt(1), VInt(0), VNone, VStr(<<A>>)}}
BytesCalls == {Call("value", <<v>>) : v \in {VBytes(<<>>), VBytes(<<A>>), VStr(<<A>>), VInt(1), VNone,
                                             VObj("bytearray_ab", <<>>, NoneOpt)}}
UuidCalls == {Call("value", <<v>>) : v \in {VUuid(4, 0), VUuid(4, 1), VUuid(1, 0), VStr(<<A>>), VNone, VInt(1)}}
DatetimeCalls == {Call("value", <<v>>) : v \in {VDatetime(0), VDatetime(1), VDate(0), VStr(<<A>>), VNone}}
DateCalls == {Call("value", <<v>>) : v \in {VDate(0), VDate(1), VDatetime(0), VStr(<<A>>), VInt(1)}}

\* component schemas used inside containers
SInt1 == [BareInt EXCEPT !.value = Some(VInt(1))]
SStrAB == [BareStr EXCEPT !.value = Some(VStr(<<A, B>>))]
SAnyIS == [BareAny EXCEPT !.types = Some(<<BareInt, BareStr>>)]
E == VEllipsis
ListValArgs ==
  { VList(<<>>), VList(<<ASchema(SInt1)>>), VList(<<ASchema(SInt1), ASchema(SStrAB)>>),
    VList(<<ASchema(SInt1), ASchema(BareInt)>>),
    VList(<<ASchema(SInt1), E>>), VList(<<E, ASchema(SInt1)>>), VList(<<E, ASchema(SInt1), E>>),
    VList(<<E>>), VList(<<E, E>>), VList(<<ASchema(SInt1), E, ASchema(SInt1)>>),
    VList(<<E, E, E>>), VList(<<VInt(1)>>), VList(<<ASchema(SInt1), VNone>>),
    ASchema(BareInt), ASchema(SInt1), VInt(5), VNone, VObj("tuple12", <<>>, NoneOpt),
    VDict(<<>>) }
ListLenCalls ==
  {Call("len", <<n>>) : n \in {VInt(0), VInt(1), VInt(2), VInt(3), VBool(TRUE), VStr(<<A>>)}}
  \cup {Call("len", <<n, VEllipsis>>) : n \in {VInt(0), VInt(1), VInt(2), VInt(3)}}
  \cup {Call("len", <<VEllipsis, n>>) : n \in {VInt(0), VInt(1), VInt(2), VInt(3)}}
  \cup {Call("len", <<VEllipsis>>), Call("len", <<VInt(0), VInt(1)>>), Call("len", <<VInt(1), VInt(2)>>),
        Call("len", <<VInt(2), VInt(1)>>), Call("len", <<VInt(1), VNone>>)}
ListCalls == {Call("value", <<v>>) : v \in ListValArgs} \cup ListLenCalls

KA == VStr(<<A>>)
KB == VStr(<<B>>)
DictValArgs ==
  { VDict(<<>>), VDict(<<KV(KA, ASchema(SInt1))>>),
    VDict(<<KV(KA, ASchema(SInt1)), KV(VOptional(KB), ASchema(BareStr))>>),
    VDict(<<KV(E, E)>>), VDict(<<KV(KA, ASchema(SInt1)), KV(E, E)>>),
    VDict(<<KV(KA, E)>>), VDict(<<KV(E, ASchema(SInt1))>>), VDict(<<KV(VOptional(KA), E)>>),
    VDict(<<KV(KA, VInt(5))>>), VDict(<<KV(KA, ASchema(SInt1)), KV(VOptional(KA), ASchema(BareStr))>>),
    VDict(<<KV(VInt(1), ASchema(SInt1)), KV(VOptional(VBool(TRUE)), ASchema(BareStr))>>),
    VDict(<<KV(VNone, ASchema(SInt1)), KV(VObj("tuple12", <<>>, NoneOpt), ASchema(BareStr))>>),
    VInt(5), VList(<<>>), VNone, VObj("MyDict", <<"dict">>, Some(VDict(<<KV(KA, ASchema(SInt1))>>))) }
DictCalls == {Call("value", <<v>>) : v \in DictValArgs}

AnyCalls == { Call("value", <<ASchema(SInt1)>>), Call("value", <<ASchema(SInt1), ASchema(BareStr)>>),
              Call("value", <<ASchema(SAnyIS), ASchema(SInt1)>>),
              Call("value", <<ASchema([BareAny EXCEPT !.types = Some(<<SAnyIS, BareNone>>)]), ASchema(BareAny)>>),
              Call("value", <<VInt(5)>>), Call("value", <<ASchema(SInt1), VNone>>),
              Call("value", <<VList(<<ASchema(SInt1)>>)>>) }

Calls(t) == CASE t = "int" -> IntCalls [] t = "float" -> FloatCalls [] t = "str" -> StrCalls
              [] t = "bool" -> BoolCalls [] t = "bytes" -> BytesCalls [] t = "uuid4" -> UuidCalls
              [] t = "datetime" -> DatetimeCalls [] t = "date" -> DateCalls
              [] t = "list" -> ListCalls [] t = "dict" -> DictCalls [] t = "any" -> AnyCalls

(***************************************************************************)
(* The machine                                                             *)
(***************************************************************************)
Init == /\ s \in {Bare(t) : t \in Types}
        /\ prev = s
        /\ chain = <<>>
        /\ last = NoneOpt
        /\ dead = FALSE

Declare(c) ==
  LET r == Apply(s, c) IN
  /\ s' = IF r.ok THEN r.s ELSE s
  /\ prev' = s
  /\ chain' = Append(chain, c)
  /\ last' = Some([c |-> c, out |-> r])
  /\ dead' = ~r.ok

Next == /\ ~dead
        /\ Len(chain) < Depth
        /\ \E c \in Calls(s.t) : Declare(c)

View == <<s, prev, last>>

(***************************************************************************)
(* C10 on the operational model                                            *)
(***************************************************************************)
\* signatures of the recorded findings (see known_findings.json)
KnownOverflow(c) == c.m = "regex" /\ c.a[1].k = "badpat" /\ c.a[1].why = "overflow"
KnownUuidVersion(sch) == sch.t = "uuid4" /\ IsSome(sch.value) /\ Base(Get(sch.value)).ver # 4

\* a refused call raises DeclarationError and nothing else
OnlyDeclarationError ==
  IsSome(last) /\ ~Get(last).out.ok =>
     \/ Get(last).out.exc = "DeclarationError"
     \/ (DEV_RegexOverflowLeaks /\ KnownOverflow(Get(last).c))

\* whenever the schema carries a fixed value, that value conforms to the schema
FixedValueConforms ==
  IsSome(FixedValue(s)) =>
     \/ Conforms(s, Get(FixedValue(s)))
     \/ (DEV_Uuid4AcceptsAnyVersion /\ KnownUuidVersion(s))

\* operational model and declarative meaning agree on the fixed value
FixedValueValidates ==
  IsSome(FixedValue(s)) =>
     (ValidateOutcome(s, Get(FixedValue(s))).errs = <<>>) = Conforms(s, Get(FixedValue(s)))

\* re-declaring an already declared property is always rejected
RedeclareRejected ==
  \A c \in Calls(s.t) :
     (\E p \in DeclaredBy(s.t, c) : IsDeclared(s, p)) => ~Apply(s, c).ok

=============================================================================
