---------------------------- MODULE MC_C10 ----------------------------
(***************************************************************************)
(* The declaration DSL as a transition system (C10).                       *)
(*                                                                         *)
(* A schema under construction starts bare and moves through refinement    *)
(* calls; a refused call is a dead end (the receiver must be unchanged,    *)
(* which the conformance harness observes on the real objects).  TLC       *)
(* explores every chain of <= Depth calls over the argument universe       *)
(* below: valid, boundary, contradictory and wrongly-typed arguments.      *)
(* Every state records the last transition, so each exported state is one  *)
(* test case (receiver chain, call, predicted outcome) for the harness.    *)
(***************************************************************************)
EXTENDS D42DslUniverse

CONSTANTS Depth, Types

VARIABLES s,       \* the schema built so far (receiver of the next call)
          prev,    \* the receiver of the last call
          chain,   \* calls applied so far, including a refused last one
          last,    \* NoneOpt | Some([c |-> call, out |-> Apply outcome])
          dead,    \* the last call was refused
          t0       \* the type the chain started from (the | operator changes the receiver's type)

vars == <<s, prev, chain, last, dead, t0>>

(***************************************************************************)
(* The machine                                                             *)
(***************************************************************************)
Init == /\ t0 \in Types
        /\ s = Bare(t0)
        /\ prev = s
        /\ chain = <<>>
        /\ last = NoneOpt
        /\ dead = FALSE

Declare(c) ==
  LET r == Apply(s, c) IN
  /\ s' = IF r.ok THEN r.s ELSE s
  /\ prev' = s
  /\ chain' = Append(chain, c)
  /\ last' = Some([c |-> c, out |-> r])
  /\ dead' = ~r.ok
  /\ UNCHANGED t0

Next == /\ ~dead
        /\ Len(chain) < Depth
        \* (at most two uses of | per chain: every further one only makes the union longer)
        /\ \E c \in CallsWithOr(s.t) :
              /\ (c.m = "or" => Cardinality({j \in DOMAIN chain : chain[j].m = "or"}) < 2)
              /\ Declare(c)

View == <<s, prev, last>>

(***************************************************************************)
(* C10 on the operational model                                            *)
(***************************************************************************)
\* signatures of the recorded findings (see known_findings.json)
KnownOverflow(c) == c.m = "regex" /\ c.a[1].k = "badpat" /\ c.a[1].why = "overflow"
KnownUuidVersion(sch) == sch.t = "uuid4" /\ IsSome(sch.value) /\ Base(Get(sch.value)).ver # 4
\* open finding: a float schema pinned to nan -- nothing equals nan, not even nan
KnownNanValue(sch) == sch.t = "float" /\ IsSome(sch.value) /\ Base(Get(sch.value)).k = "float"
                      /\ Base(Get(sch.value)).sp = "nan"

\* a refused call raises DeclarationError and nothing else
OnlyDeclarationError ==
  IsSome(last) /\ ~Get(last).out.ok =>
     \/ Get(last).out.exc = "DeclarationError"
     \/ (DEV_RegexOverflowLeaks /\ KnownOverflow(Get(last).c))

\* whenever the schema carries a fixed value, that value conforms to the schema
FixedValueConforms ==
  IsSome(FixedValue(s)) =>
     \/ Conforms(s, Get(FixedValue(s)))
     \/ (DEV_Uuid4AcceptsAnyVersion /\ KnownUuidVersion(s))
     \/ KnownNanValue(s)

\* operational model and declarative meaning agree on the fixed value
FixedValueValidates ==
  IsSome(FixedValue(s)) =>
     (ValidateOutcome(s, Get(FixedValue(s))).errs = <<>>) = Conforms(s, Get(FixedValue(s)))

\* re-declaring an already declared property is always rejected
RedeclareRejected ==
  \A c \in Calls(s.t) :
     (\E p \in DeclaredBy(s.t, c) : IsDeclared(s, p)) => ~Apply(s, c).ok

=============================================================================
