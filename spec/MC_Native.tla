---------------------------- MODULE MC_Native ----------------------------
(***************************************************************************)
(* C14: from_native(value) denotes exactly that value.                     *)
(* The machine picks a plain value (nesting <= Depth), optionally injects  *)
(* one non-plain member at some position, and converts it.                 *)
(***************************************************************************)
EXTENDS D42ValueUniverse

CONSTANT Depth

VARIABLES v, plain, r

vars == <<v, plain, r>>

Init == /\ v \in PlainValues(Depth)
        /\ plain = TRUE
        /\ r = FromNative(v)

Inject(x) == /\ plain
             /\ v' = x
             /\ plain' = FALSE
             /\ r' = FromNative(x)

Next == \E x \in {y \in Mutants(v, NonPlain, {}) : HasForeign(y)} \cup KeyInjections(v) : Inject(x)

C14_AcceptsItsValue == plain => (r.ok /\ Conforms(r.s, v))

C14_GeneratesExactlyIt == plain => \A t \in ConstTapes : Gen(r.s, t, 0) = GOk(v, 0)

C14_RejectsEverythingElse ==
  plain => \A w \in Mutants(v, Unrelated, ExtraKeys) : Conforms(r.s, w) => SameValue(w, v)

C14_RefusesOtherKinds == ~plain => \/ (~r.ok /\ r.exc = "ValueError")
                                    \/ (KnownKeyOfOtherKind(v) /\ r.ok)

\* what substitution builds for untyped positions is the same schema (ties C14 to C04)
C14_SubstitutionAgrees ==
  plain => /\ (v.k = "list" => Subst(BareList, v) = SOk(r.s))
           /\ Subst(BareAny, v) = SOk([BareAny EXCEPT !.types = Some(<<r.s>>)])

=============================================================================
