---------------------------- MODULE Trace_C09 ----------------------------
(***************************************************************************)
(* C09 on recorded executions of the real RegexGenerator.  One event per   *)
(* generate(pattern) run:                                                  *)
(*   rx        the pattern as an AST (the text was printed from it)        *)
(*   mr        max_repeat the generator was built with                     *)
(*   tape      selectors fed to the draws (<<>>: the real RNG)             *)
(*   exc       "" or the exception type raised                             *)
(*   w         the generated text (code points)                            *)
(*   py_full   Python's re.fullmatch(pattern, text): "yes" | "no" |        *)
(*             "timeout" (backtracking blow-up; no verdict from it)        *)
(*   via_fake  the run went through fake(schema.str.regex(p)); vok is the  *)
(*             real validate() verdict on the generated string             *)
(***************************************************************************)
EXTENDS D42Generate, D42TraceBase

RECURSIVE RSubT(_)
RSubT(x) == {x} \cup CASE x.r \in {"group", "rep", "uns"} -> RSubT(x.body)
                       [] x.r = "alt" -> UNION {RSubT(x.alts[i]) : i \in DOMAIN x.alts}
                       [] x.r = "seq" -> UNION {RSubT(x.parts[i]) : i \in DOMAIN x.parts}
                       [] OTHER -> {}
EmptyNeg(x) == x.r = "class" /\ x.neg /\ NotInCandidates(x.items) = <<>> /\ ~NotInUnknownCat(x.items)
HasNeg(x) == \E y \in RSubT(x) : y.r = "notlit" \/ (y.r = "class" /\ y.neg)

SigRaise(e) == IF e.exc = "IndexError" /\ \E y \in RSubT(e.rx) : EmptyNeg(y)
               THEN "regex.negated_class_excludes_whole_alphabet" ELSE ""
SigMatch(e) == IF e.mr > MAX_REPEAT_OPCODE /\ \E y \in RSubT(e.rx) : y.r = "rep" /\ y.hi = MAX_REPEAT_OPCODE
               THEN "regex.repeat_bound_equal_to_opcode_is_open_ended" ELSE ""

Verdict(e) ==
  IF RHasUns(e.rx)
  THEN IF e.exc # "" THEN "OK"
       ELSE IF e.py_full = "no" THEN "FAIL:unsupported_construct_returned_non_matching_string:"
       ELSE "OK"
  ELSE IF e.exc # "" THEN "FAIL:supported_pattern_refused:" \o SigRaise(e)
  ELSE IF ~RFullMatch(e.rx, e.w) THEN "FAIL:not_a_full_match_by_the_spec_matcher:" \o SigMatch(e)
  ELSE IF e.py_full = "no" THEN "FAIL:not_a_full_match_by_python_re:" \o SigMatch(e)
  ELSE IF e.via_fake /\ ~e.vok THEN "FAIL:generated_string_rejected_by_its_schema:"
  ELSE "OK"

\* predictions are exact under the all-first / all-last tapes (sre's normalisation of
\* alternations into classes changes the number of draws of other tapes) and without
\* negated classes (their candidate order is a hash order)
\* sre turns an alternation of single characters / classes into one class (and removes
\* duplicates from it), which changes what an index selects
\* (... also through a non-capturing group; and a class of one literal becomes that literal: no draw)
CharLike(y) == y.r = "lit" \/ (y.r = "class" /\ ~y.neg)
               \/ (y.r = "group" /\ y.kind = "noncap" /\ (y.body.r = "lit" \/ (y.body.r = "class" /\ ~y.body.neg)))
MergeableAlt(x) == \/ x.r = "alt" /\ \A i \in DOMAIN x.alts : CharLike(x.alts[i])
                   \/ x.r = "class" /\ ~x.neg /\ Len(x.items) = 1 /\ x.items[1].ci = "lit"
Drift(e) ==
  /\ e.tape \in {<<"lo">>, <<"hi">>}
  /\ ~HasNeg(e.rx)
  /\ ~\E y \in RSubT(e.rx) : MergeableAlt(y)
  /\ LET m == RGen(e.rx, e.tape, 0, e.mr) IN
     IF m.ok THEN e.exc # "" \/ m.w # e.w ELSE e.exc # m.exc

TraceNext == TraceStep(Verdict, Drift)

=============================================================================
