---------------------------- MODULE D42Probe ----------------------------
(***************************************************************************)
(* Witnesses and probe values.                                             *)
(*                                                                         *)
(* Witness(s): a constructive attempt at a conforming value, independent   *)
(* of the generator model.  Sat(s) holds only when the attempt succeeds    *)
(* *and* the declarative meaning accepts it, so a weak witness constructor *)
(* can only lose coverage, never raise an alarm.                           *)
(*                                                                         *)
(* Mutants(v, R): every value obtained from v by one edit at any depth:    *)
(* a kind-specific tweak (n+-1, one character more/less, an element or key *)
(* dropped/added/swapped) or the replacement of one node by a member of R  *)
(* (unrelated values for C02/C03, the hostile zoo for C08).                *)
(***************************************************************************)
EXTENDS D42Generate

(***************************************************************************)
(* Witness                                                                 *)
(***************************************************************************)
FirstThat(cands, P(_)) ==          \* Some(first candidate satisfying P) | NoneOpt
  LET hits == SelectSeq(cands, P) IN IF hits = <<>> THEN NoneOpt ELSE Some(hits[1])

Repeat(x, n) == [j \in 1..DMax2(0, n) |-> x]

RECURSIVE Witness(_)

StrCandidates(s) ==
  LET sub == IF IsSome(s.substr) THEN Get(s.substr).s ELSE <<>>
      fill == IF IsSome(s.alphabet) /\ Len(Get(s.alphabet).s) > 0 THEN Get(s.alphabet).s[1] ELSE 97
      lens == IF IsSome(s.len) THEN <<IntOf(Get(s.len))>>
              ELSE <<DMax2(IF IsSome(s.min_len) THEN IntOf(Get(s.min_len)) ELSE 0, Len(sub)),
                     IF IsSome(s.max_len) THEN IntOf(Get(s.max_len)) ELSE Len(sub),
                     Len(sub), 0>>
      pats == IF IsSome(s.pattern)
              THEN LET g1 == RGen(Get(s.pattern).rx, <<"lo">>, 0, 2)
                       g2 == RGen(Get(s.pattern).rx, <<"hi">>, 0, 2)
                       g3 == RGen(Get(s.pattern).rx, <<"lo1">>, 0, 2)
                   IN  (IF g1.ok THEN <<VStr(g1.w)>> ELSE <<>>) \o (IF g2.ok THEN <<VStr(g2.w)>> ELSE <<>>)
                       \o (IF g3.ok THEN <<VStr(g3.w)>> ELSE <<>>)
              ELSE <<>>
  IN  (IF IsSome(s.value) THEN <<Get(s.value)>> ELSE <<>>) \o pats \o
      [j \in DOMAIN lens |-> VStr(sub \o Repeat(fill, lens[j] - Len(sub)))]

NumCandidates(s, zero) ==
  (IF IsSome(s.value) THEN <<Get(s.value)>> ELSE <<>>) \o
  (IF IsSome(s.min) THEN <<Get(s.min)>> ELSE <<>>) \o
  (IF IsSome(s.max) THEN <<Get(s.max)>> ELSE <<>>) \o <<zero>>

\* witnesses of a sequence of schemas: Some(sequence of values) | NoneOpt
RECURSIVE WitnessAll(_, _, _)
WitnessAll(schemas, i, acc) ==
  IF i > Len(schemas) THEN Some(acc)
  ELSE LET w == Witness(schemas[i])
       IN  IF IsNone(w) THEN NoneOpt ELSE WitnessAll(schemas, i + 1, Append(acc, Get(w)))

ListWitness(s) ==
  LET want == IF IsSome(s.len) THEN IntOf(Get(s.len))
              ELSE IF IsSome(s.min_len) THEN IntOf(Get(s.min_len)) ELSE 0
  IN  IF IsSome(s.type)
      THEN IF want <= 0 THEN Some(VList(<<>>))
           ELSE LET w == Witness(Get(s.type))
                IN  IF IsNone(w) THEN NoneOpt ELSE Some(VList(Repeat(Get(w), want)))
      ELSE IF IsSome(s.elems)
      THEN LET conc == Concrete(Get(s.elems))
               ws == WitnessAll(conc, 1, <<>>)
               form == ListForm(Get(s.elems))
               pad == Repeat(VNone, want - Len(conc))
           IN  IF IsNone(ws) THEN NoneOpt
               ELSE IF form = "exact" THEN Some(VList(Get(ws)))
               ELSE IF form = "tail" THEN Some(VList(pad \o Get(ws)))
               ELSE Some(VList(Get(ws) \o pad))
      ELSE Some(VList(Repeat(VNone, want)))

RECURSIVE DictWitness(_, _, _)
DictWitness(keys, i, acc) ==
  IF i > Len(keys) THEN Some(VDict(acc))
  ELSE IF IsEll(keys[i].key) \/ keys[i].opt THEN DictWitness(keys, i + 1, acc)
  ELSE LET w == Witness(keys[i].val)
       IN  IF IsNone(w) THEN NoneOpt
           ELSE DictWitness(keys, i + 1, Append(acc, KV(keys[i].key, Get(w))))

RECURSIVE AnyWitness(_, _)
AnyWitness(types, i) ==
  IF i > Len(types) THEN NoneOpt
  ELSE LET w == Witness(types[i])
       IN  IF IsSome(w) /\ Conforms(types[i], Get(w)) THEN w ELSE AnyWitness(types, i + 1)

Witness(s) ==
  CASE s.t = "none" -> Some(VNone)
    [] s.t = "bool" -> IF IsSome(s.value) THEN s.value ELSE Some(VBool(TRUE))
    [] s.t = "int" -> FirstThat(NumCandidates(s, VInt(0)), LAMBDA v : Conforms(s, v))
    [] s.t = "float" -> FirstThat(NumCandidates(s, VFloat(0)), LAMBDA v : Conforms(s, v))
    [] s.t = "str" -> FirstThat(StrCandidates(s), LAMBDA v : Conforms(s, v))
    [] s.t = "bytes" -> IF IsSome(s.value) THEN s.value ELSE Some(VBytes(<<>>))
    [] s.t = "uuid4" -> IF IsSome(s.value) THEN s.value ELSE Some(VUuid(4, 0))
    [] s.t = "datetime" -> IF IsSome(s.value) THEN s.value ELSE Some(VDatetime(0))
    [] s.t = "date" -> IF IsSome(s.value) THEN s.value ELSE Some(VDate(0))
    [] s.t = "list" -> ListWitness(s)
    [] s.t = "dict" -> IF IsNone(s.keys) THEN Some(VDict(<<>>)) ELSE DictWitness(Get(s.keys), 1, <<>>)
    [] s.t = "any" -> IF IsNone(s.types) THEN Some(VNone) ELSE AnyWitness(Get(s.types), 1)
    [] s.t = "alias" -> Witness(s.type)
    [] s.t = "custom" -> Witness(s.inner)

Sat(s) == LET w == Witness(s) IN IsSome(w) /\ Conforms(s, Get(w))

(***************************************************************************)
(* Replacement sets                                                        *)
(***************************************************************************)
Unrelated == { VNone, VBool(TRUE), VBool(FALSE), VInt(0), VInt(7), VFloat(0), VFloat(100), VStr(<<>>), VStr(<<122>>),
               VBytes(<<>>), VList(<<>>), VDict(<<>>), VUuid(4, 0), VDatetime(0), VDate(0) }

Zoo == { VInf, VNegInf, VNan, VFloat(200000), VInt(2000), VInt(-2000), VInt(3000), VUuid(1, 0), VUuid(0, 0),
         VObj("tuple0", <<>>, NoneOpt), VObj("tuple12", <<>>, NoneOpt), VObj("set1", <<>>, NoneOpt),
         VObj("frozenset1", <<>>, NoneOpt), VObj("bytearray_ab", <<>>, NoneOpt),
         VObj("Decimal1", <<>>, NoneOpt), VObj("Fraction12", <<>>, NoneOpt),
         VObj("complex1", <<>>, NoneOpt), VObj("range3", <<>>, NoneOpt),
         VObj("object_a", <<>>, NoneOpt), VObj("uuidlike", <<>>, NoneOpt),
         VObj("type_int", <<>>, NoneOpt), VObj("notimplemented", <<>>, NoneOpt),
         \* sets whose members cannot be ordered; objects that can be neither copied nor pickled
         VObj("set_mixed", <<>>, NoneOpt), VObj("frozenset_mixed", <<>>, NoneOpt),
         VObj("generator", <<>>, NoneOpt), VObj("lock", <<>>, NoneOpt), VObj("uncopyable", <<>>, NoneOpt),
         VObj("tuple_with_list", <<>>, NoneOpt),       \* a tuple that cannot be hashed
         VObj("MyInt", <<"int">>, Some(VInt(1))), VObj("MyFloat", <<"float">>, Some(VFloat(25))),
         VObj("MyStr", <<"str">>, Some(VStr(<<97, 98>>))), VObj("MyBytes", <<"bytes">>, Some(VBytes(<<97>>))),
         VObj("MyList", <<"list">>, Some(VList(<<VInt(1)>>))),
         VObj("MyDict", <<"dict">>, Some(VDict(<<KV(VStr(<<97>>), VInt(1))>>))),
         VObj("OrderedDict", <<"dict">>, Some(VDict(<<KV(VStr(<<97>>), VInt(1))>>))) }

\* hashable members usable as extra dict keys
ZooKeys == { VNan, VObj("tuple12", <<>>, NoneOpt), VObj("frozenset1", <<>>, NoneOpt), VInt(2000), VNone, VEllipsis,
             VObj("frozenset_mixed", <<>>, NoneOpt), VObj("uncopyable", <<>>, NoneOpt),
             VObj("object_a", <<>>, NoneOpt), VBool(TRUE), VFloat(50), VBytes(<<97>>) }

(***************************************************************************)
(* Mutants                                                                 *)
(***************************************************************************)
RemoveAt(s, i) == SubSeq(s, 1, i - 1) \o SubSeq(s, i + 1, Len(s))

Local(v) ==
  CASE v.k = "none" -> {}
    [] v.k = "bool" -> {VBool(~v.tf), VInt(IF v.tf THEN 1 ELSE 0)}
    [] v.k = "int" -> {VInt(v.n + 1), VInt(v.n - 1)} \cup
                      (IF v.n \in {0, 1} THEN {VBool(v.n = 1)} ELSE {}) \cup
                      (IF DAbs(v.n) <= 900 THEN {VFloat(v.n * 100)} ELSE {})
    [] v.k = "float" -> IF v.sp # "fin" THEN {}
                        ELSE IF v.q = 200000 THEN {VFloat(150000), VInf}    \* another float of that magnitude
                        ELSE {VFloat(v.q + 25), VFloat(v.q - 25), VFloat(v.q + 1), VFloat(v.q - 1)} \cup
                             (IF v.q % 100 = 0 /\ DAbs(v.q) <= 90000 THEN {VInt(v.q \div 100)} ELSE {})
    [] v.k = "str" -> {VStr(Append(v.s, 97)), VStr(Append(v.s, 122)), VStr(<<122>> \o v.s), VBytes(v.s)} \cup
                      (IF Len(v.s) > 0
                       THEN {VStr(RemoveAt(v.s, Len(v.s))), VStr(RemoveAt(v.s, 1)),
                             VStr([v.s EXCEPT ![1] = 122]), VStr([v.s EXCEPT ![Len(v.s)] = 122])}
                       ELSE {})
    [] v.k = "bytes" -> {VBytes(Append(v.bs, 97)), VStr(v.bs)} \cup
                        (IF v.bs = <<97, 98>> THEN {VObj("bytearray_ab", <<>>, NoneOpt)} ELSE {}) \cup
                        (IF Len(v.bs) > 0 THEN {VBytes(RemoveAt(v.bs, 1))} ELSE {})
    [] v.k = "uuid" -> {VUuid(v.ver, v.id + 1), VUuid(1, v.id)}
    [] v.k = "datetime" -> {VDatetime(v.dt + 1), VDate(v.dt)}
    [] v.k = "date" -> {VDate(v.d + 1), VDatetime(v.d)}
    [] OTHER -> {}

\* the same content inside an instance of a subclass of the container type (a defaultdict
\* answers lookups of absent keys with a default instead of KeyError)
Subclassed(v) ==
  IF v.k = "list" THEN {VObj("MyList", <<"list">>, Some(v))}
  ELSE IF v.k = "dict"
  THEN {VObj("DefaultDict", <<"dict">>, Some(v))} \cup
       {VObj("DefaultDict", <<"dict">>, Some(VDict(RemoveAt(v.pairs, i)))) : i \in DOMAIN v.pairs}
  ELSE {}

RECURSIVE Mutants(_, _, _)
Mutants(v, R, K) ==
  R \cup Local(v) \cup Subclassed(v) \cup
  (IF v.k = "list" THEN
     LET it == v.items IN
     {VList(RemoveAt(it, i)) : i \in DOMAIN it}
     \cup {VList(Append(it, x)) : x \in {VNone} \cup (IF it = <<>> THEN {} ELSE {it[Len(it)]})}
     \cup {VList(<<VNone>> \o it)}
     \cup (IF Len(it) >= 2 /\ it[1] # it[2] THEN {VList(<<it[2], it[1]>> \o SubSeq(it, 3, Len(it)))} ELSE {})
     \cup UNION {{VList([it EXCEPT ![i] = m]) : m \in Mutants(it[i], R, K)} : i \in DOMAIN it}
   ELSE IF v.k = "dict" THEN
     LET ps == v.pairs IN
     {VDict(RemoveAt(ps, i)) : i \in DOMAIN ps}
     \cup {VDict(Append(ps, KV(x, VNone))) : x \in {y \in K : ~DictHas(ps, y)}}
     \* two extra keys at once (of different kinds when K mixes kinds)
     \* two keys that are not equal to each other although they print the same (nan != nan)
     \cup (IF VNan \in K THEN {VDict(ps \o <<KV(VNan, VNone), KV(VNan, VNone)>>)} ELSE {})
     \cup {VDict(ps \o <<KV(xy[1], VNone), KV(xy[2], VNone)>>) :
              xy \in {p \in K \X K : p[1] # p[2] /\ ~VEq(p[1], p[2]) /\ ~DictHas(ps, p[1]) /\ ~DictHas(ps, p[2])}}
     \cup UNION {{VDict([ps EXCEPT ![i] = KV(ps[i].key, m)]) : m \in Mutants(ps[i].val, R, K)} : i \in DOMAIN ps}
   ELSE {})

ExtraKeys == {VStr(<<122, 122>>), VInt(7), VNone}

\* probe values of a generated value g for C02/C03 (nan is outside C02's ordered number domain)
ProbesPlain(g) == {g} \cup Mutants(g, Unrelated, ExtraKeys)
\* probe values for C08: the zoo alone and injected at every position, unusual keys added
ProbesZoo(g) == Zoo \cup Mutants(g, Zoo, ZooKeys)

=============================================================================
