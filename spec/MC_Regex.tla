---------------------------- MODULE MC_Regex ----------------------------
(***************************************************************************)
(* C09: regex generation yields a full match or refuses loudly.            *)
(*                                                                         *)
(* Patterns are programs: the machine builds regex ASTs with constructor   *)
(* actions on a small stack (push an atom; wrap the top in a group, a      *)
(* quantifier, anchors or an unsupported construct; combine the two top    *)
(* entries into a sequence or an alternation), at most MaxSteps steps.     *)
(* A finished pattern is observed: the generator model runs under a tape   *)
(* of draw outcomes and a max_repeat setting.                              *)
(***************************************************************************)
EXTENDS D42Generate

CONSTANTS MaxSteps, Rich, MaxRepeats,
          MaxLen      \* only patterns whose longest generated string stays below this are observed

VARIABLES stack, steps, phase, tape, mr, g

vars == <<stack, steps, phase, tape, mr, g>>

CA == 97
Atoms == { RLit(CA), RLit(46), RAny, RDigit,
           RClass(FALSE, <<CLit(CA), CRange(98, 99), CCat("word")>>),
           RClass(TRUE, <<CRange(CA, 99), CCat("digit")>>), RNotLit(CA) }
          \cup (IF Rich THEN { RLit(98), RWord, RClass(FALSE, <<CRange(CA, 99)>>), RClass(TRUE, <<CLit(CA)>>) } ELSE {})
          \cup (IF Rich THEN { RClass(TRUE, <<CRange(32, 126)>>), RClass(FALSE, <<CCat("space")>>),
                               RClass(FALSE, <<CCat("ndigit")>>), RClass(TRUE, <<CCat("word"), CLit(45)>>),
                               RClass(FALSE, <<CCat("nword")>>), RClass(TRUE, <<CCat("nspace")>>) }
                ELSE { RClass(FALSE, <<CCat("space")>>), RClass(FALSE, <<CCat("ndigit")>>) })

Bounds == {<<0, 1>>, <<0, INF>>, <<1, INF>>, <<1, 3>>, <<33, INF>>}
          \cup (IF Rich THEN {<<2, 2>>, <<0, 0>>, <<0, 44>>, <<40, 44>>, <<2, INF>>} ELSE {})
GroupKinds == IF Rich THEN {"cap", "noncap", "named"} ELSE {"cap", "noncap"}
UnsKinds == IF Rich THEN {"lookahead", "nlookahead", "lookbehind", "nlookbehind", "backref", "atomic", "possessive"}
            ELSE {"lookahead", "backref", "possessive"}

Top == stack[Len(stack)]
Pop1 == SubSeq(stack, 1, Len(stack) - 1)
Pop2 == SubSeq(stack, 1, Len(stack) - 2)

NoG == [ok |-> FALSE, exc |-> "none", p |-> 0]

Init == stack = <<>> /\ steps = 0 /\ phase = "build" /\ tape = <<>> /\ mr = 0 /\ g = NoG

Building == phase = "build" /\ steps < MaxSteps

Push(a) == /\ Building /\ Len(stack) < 2
           /\ stack' = Append(stack, a) /\ steps' = steps + 1 /\ UNCHANGED <<phase, tape, mr, g>>
Wrap(f) == /\ Building /\ Len(stack) >= 1
           /\ stack' = Append(Pop1, f) /\ steps' = steps + 1 /\ UNCHANGED <<phase, tape, mr, g>>
Combine(f) == /\ Building /\ Len(stack) >= 2
              /\ stack' = Append(Pop2, f) /\ steps' = steps + 1 /\ UNCHANGED <<phase, tape, mr, g>>

RECURSIVE WorstLen(_, _)
SumLens(parts, m) == LET F[i \in 0..Len(parts)] == IF i = 0 THEN 0 ELSE F[i - 1] + WorstLen(parts[i], m) IN F[Len(parts)]
WorstLen(x, m) ==
  CASE x.r \in {"lit", "notlit", "any", "class"} -> 1
    [] x.r = "at" -> 0
    [] x.r \in {"group", "uns"} -> WorstLen(x.body, m)
    [] x.r = "rep" -> (IF x.hi = INF \/ x.hi = MAX_REPEAT_OPCODE THEN DMax2(m, x.lo) ELSE x.hi) * WorstLen(x.body, m)
    [] x.r = "seq" -> SumLens(x.parts, m)
    [] x.r = "alt" -> DMax2(WorstLen(x.alts[1], m), WorstLen(x.alts[2], m))

Anchored(x) == x.r = "seq" /\ Len(x.parts) >= 1 /\ x.parts[1].r = "at"
Lazies == BOOLEAN
TapeChoices == IF Rich THEN Tapes2 ELSE ConstTapes \cup {<<"lo", "hi">>, <<"hi", "lo">>, <<"lo1", "hi">>, <<"hi", "hi1">>}

Flat(x) == IF x.r = "seq" THEN x.parts ELSE <<x>>

Next ==
  \/ \E a \in Atoms : Push(a)
  \/ Len(stack) >= 1 /\ ~Anchored(Top) /\ \E k \in GroupKinds : Wrap(RGroup(k, Top))
  \/ Len(stack) >= 1 /\ ~Anchored(Top) /\ \E b \in Bounds, lazy \in Lazies : (Rich \/ ~lazy \/ b[2] = INF) /\ Wrap(RRep(Top, b[1], b[2], lazy))
  \/ Len(stack) >= 1 /\ ~Anchored(Top) /\ \E k \in UnsKinds : Wrap(RUns(k, Top))
  \* anchors only at the ends of the whole pattern: an anchored pattern is finished
  \/ Len(stack) = 1 /\ ~Anchored(Top) /\ Wrap(RSeq(<<RStart>> \o Flat(Top) \o <<REnd>>))
  \/ Len(stack) >= 2 /\ ~Anchored(Top) /\ ~Anchored(stack[Len(stack) - 1])
     /\ Combine(RSeq(Flat(stack[Len(stack) - 1]) \o Flat(Top)))
  \/ Len(stack) >= 2 /\ ~Anchored(Top) /\ ~Anchored(stack[Len(stack) - 1])
     /\ Combine(RAlt(<<stack[Len(stack) - 1], Top>>))
  \/ /\ phase = "build" /\ Len(stack) = 1
     /\ \E t \in TapeChoices, m \in {x \in MaxRepeats : WorstLen(Top, x) <= MaxLen} :
          /\ phase' = "obs" /\ tape' = t /\ mr' = m /\ g' = RGen(Top, t, 0, m)
          /\ UNCHANGED <<stack, steps>>

View == <<stack, phase, tape, mr>>

Pattern == stack[1]

\* negated class that excludes the whole generator alphabet: random.choice("") -> IndexError
EmptyNegatedClass(x) == x.r = "class" /\ x.neg /\ NotInCandidates(x.items) = <<>> /\ ~NotInUnknownCat(x.items)
RECURSIVE RSub(_)
RSub(x) == {x} \cup CASE x.r \in {"group", "rep", "uns"} -> RSub(x.body)
                      [] x.r = "alt" -> UNION {RSub(x.alts[i]) : i \in DOMAIN x.alts}
                      [] x.r = "seq" -> UNION {RSub(x.parts[i]) : i \in DOMAIN x.parts}
                      [] OTHER -> {}
KnownEmptyNeg == \E y \in RSub(Pattern) : EmptyNegatedClass(y)
KnownOpcode == DEV_RegexOpcodeAsBound /\ \E y \in RSub(Pattern) : y.r = "rep" /\ y.hi = MAX_REPEAT_OPCODE

C09_FullMatchOrRefusal ==
  phase = "obs" =>
     IF g.ok THEN (RHasUns(Pattern) \/ RFullMatch(Pattern, g.w) \/ KnownOpcode)
     ELSE g.exc \in {"ValueError", "IndexError"}

C09_SupportedNeverRefused ==
  (phase = "obs" /\ ~RHasUns(Pattern)) => (g.ok \/ KnownEmptyNeg)

\* a generated string of schema.str.regex(p) is accepted by the schema (C01 for patterns)
C09_SearchAccepts ==
  (phase = "obs" /\ g.ok /\ ~RHasUns(Pattern)) => (RSearch(Pattern, g.w) \/ KnownOpcode)

=============================================================================
