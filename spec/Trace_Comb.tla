---------------------------- MODULE Trace_Comb ----------------------------
(***************************************************************************)
(* C13 on recorded executions of the real combinators.  One event per      *)
(* combination:  op, a, b, c (abstract operands), ks (key list option),    *)
(*   exc, rep / res (abstract result),                                     *)
(*   probes [w, oks: real verdicts of <<a, b, c, result>> on w],           *)
(*   gens   fake(result) under constant tapes: [exc, vok],                 *)
(*   items  for getitem: [key, exc, same (d[key] is the declared member)], *)
(*   iter   keys yielded by iterating the real dict schema (abstract)      *)
(***************************************************************************)
EXTENDS D42Combine, D42TraceBase

OkA(p) == p.oks[1]
OkB(p) == p.oks[2]
OkC(p) == p.oks[3]
OkR(p) == p.oks[4]

GensBad(e) == \E j \in DOMAIN e.gens : e.gens[j].exc # "" \/ ~e.gens[j].vok

Verdict(e) ==
  IF e.op = "add_bad" THEN "OK"        \* d + <not a dict schema>: TypeError today (drift otherwise), outside C13
  ELSE IF e.op = "make_required" /\ e.exc # ""
       THEN IF e.exc = "DeclarationError" /\ IsSome(e.ks)
               /\ \E i \in DOMAIN Get(e.ks) : ~KeysHas(IF IsSome(e.a.keys) THEN Get(e.a.keys) ELSE <<>>, Get(e.ks)[i])
            THEN "OK" ELSE "FAIL:make_required_refused:"
  ELSE IF e.exc # "" THEN "FAIL:combinator_raised:"
  ELSE IF e.op = "union" /\ \E j \in DOMAIN e.probes : OkR(e.probes[j]) # (OkA(e.probes[j]) \/ OkB(e.probes[j]))
       THEN "FAIL:union_is_not_the_union:"
  ELSE IF e.op = "any3" /\ \E j \in DOMAIN e.probes :
                              OkR(e.probes[j]) # (OkA(e.probes[j]) \/ OkB(e.probes[j]) \/ OkC(e.probes[j]))
       THEN "FAIL:nested_union_changes_meaning:"
  ELSE IF e.op = "any3" /\ e.rep /\ \E i \in DOMAIN Get(Get(e.res).types) :
                              Get(Get(e.res).types)[i].t = "any" /\ IsSome(Get(Get(e.res).types)[i].types)
       THEN "FAIL:nested_union_not_flattened:"
  ELSE IF e.op = "add" /\ \E j \in DOMAIN e.probes : OkR(e.probes[j]) # AddMeaning(e.a, e.b, e.probes[j].w)
       THEN "FAIL:sum_of_dicts_wrong_meaning:"
  ELSE IF e.op = "make_required" /\ \E j \in DOMAIN e.probes :
                              OkR(e.probes[j]) # (OkA(e.probes[j]) /\ MakeRequiredMeaning(e.a, e.ks, e.probes[j].w))
       THEN "FAIL:make_required_wrong_meaning:"
  ELSE IF e.op = "alias" /\ \E j \in DOMAIN e.probes : OkR(e.probes[j]) # OkA(e.probes[j])
       THEN "FAIL:alias_differs_from_target:"
  ELSE IF e.op = "getitem" /\ \E j \in DOMAIN e.items :
            LET it == e.items[j]
                declared == IsSome(e.a.keys) /\ ~IsEll(it.key) /\ KeysHas(Get(e.a.keys), it.key)
            IN  IF declared THEN it.exc # "" \/ ~it.same ELSE it.exc = ""      \* (KeyError today; any refusal will do)
       THEN "FAIL:getitem_does_not_expose_member:"
  ELSE IF e.op = "getitem" /\ e.iter # DictKeys(e.a) THEN "FAIL:iteration_does_not_expose_keys:"
  ELSE IF e.rep /\ Sat(Get(e.res)) /\ ~KnownGenSig(Get(e.res)) /\ GensBad(e)
       THEN "FAIL:combined_schema_generates_nonconforming:"
  ELSE "OK"

ModelResult(e) ==
  CASE e.op = "union" -> Union(e.a, e.b)
    [] e.op = "any3" -> AnyN(<<Union(e.a, e.b).s, e.c>>)
    [] e.op \in {"add", "add_bad"} -> Add(e.a, e.b)
    [] e.op = "make_required" -> MakeRequired(e.a, e.ks)
    [] e.op = "alias" -> SOk(SAlias("T", e.a))
    [] e.op = "getitem" -> SOk(e.a)

Drift(e) ==
  LET m == ModelResult(e) IN
  \/ m.ok # (e.exc = "")
  \/ ~m.ok /\ m.exc # e.exc
  \/ m.ok /\ e.rep /\ m.s # Get(e.res)
  \/ e.op = "getitem" /\ \E j \in DOMAIN e.items :
        ~(IsSome(e.a.keys) /\ ~IsEll(e.items[j].key) /\ KeysHas(Get(e.a.keys), e.items[j].key))
        /\ e.items[j].exc # "KeyError"

TraceNext == TraceStep(Verdict, Drift)

=============================================================================
