---------------------------- MODULE Trace_Registry ----------------------------
(***************************************************************************)
(* Recorded runs of the real classes: one event per history.               *)
(*   hist     the actions performed (register_type calls, class statements *)
(*            with extend=...)                                             *)
(*   outs     what each action returned or raised                          *)
(*   access   [name |-> outcome of schema.<name>] afterwards               *)
(*   dispatch [cls |-> [visitor |-> outcome of cls().__accept__(visitor)]] *)
(* The verdict is about the clause C16 relies on; everything else is       *)
(* compared with the model as drift.                                       *)
(***************************************************************************)
EXTENDS D42Registry, D42TraceBase

Final(e) == Run(InitReg, e.hist)

Verdict(e) ==
  IF \E v \in LibVisitors : e.dispatch["CFull"][v] # "hook:" \o OpOf(v)
  THEN "FAIL:complete_custom_type_not_dispatched_to_its_hooks:"
  ELSE IF \E c \in BuiltinCls, v \in LibVisitors :
            e.dispatch[c][v] # "builtin" /\ ~Replaced(Final(e), c, v)
  THEN "FAIL:builtin_type_lost_its_visit_method:"
  ELSE "OK"

Drift(e) ==
  \/ e.outs # Outs(e.hist)
  \/ \E n \in Names : e.access[n] # AccessOut(Final(e), n)
  \/ \E c \in Instantiable, v \in Visitors : e.dispatch[c][v] # DispatchOut(Final(e), c, v)

TraceNext == TraceStep(Verdict, Drift)

=============================================================================
