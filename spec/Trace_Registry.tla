---------------------------- MODULE Trace_Registry ----------------------------
(***************************************************************************)
(* Recorded runs of the real classes: one event per history.               *)
(*   hist     the actions performed (register_type calls, class statements *)
(*            with extend=...)                                             *)
(*   outs     what each action returned or raised                          *)
(*   access   [name |-> outcome of schema.<name>] afterwards               *)
(*   dispatch [cls |-> [visitor |-> outcome of cls().__accept__(visitor)]] *)
(*   render   how Formatter() renders a type error at a nested path:       *)
(*            "default" (the library's text, naming the path) | "ext:..."  *)
(* The verdict is about the clause C16 relies on; everything else is       *)
(* compared with the model as drift.                                       *)
(***************************************************************************)
EXTENDS D42Registry, D42TraceBase

CONSTANT Scope        \* the property whose check runs the machine: "C16" (dispatch) | "C03" (rendering)

Final(e) == Run(InitReg, e.hist)

Verdict(e) ==
  IF Scope = "C03"
  THEN IF e.render # "default" /\ "format_type_error" \notin Final(e).own["Formatter"]
       THEN "FAIL:message_rendering_changed_without_a_public_format_method_being_replaced:"
       ELSE "OK"
  ELSE
  IF \E v \in LibVisitors : e.dispatch["CFull"][v] # "hook:" \o OpOf(v)
  THEN "FAIL:complete_custom_type_not_dispatched_to_its_hooks:"
  ELSE IF \E c \in BuiltinCls, v \in LibVisitors :
            e.dispatch[c][v] # "builtin" /\ ~Replaced(Final(e), c, v)
  THEN "FAIL:builtin_type_lost_its_visit_method:"
  ELSE "OK"

Drift(e) ==
  \/ e.render # RenderOut(Final(e))
  \/ e.outs # Outs(e.hist)
  \/ \E n \in Names : e.access[n] # AccessOut(Final(e), n)
  \/ \E c \in Instantiable, v \in Visitors : e.dispatch[c][v] # DispatchOut(Final(e), c, v)

TraceNext == TraceStep(Verdict, Drift)

=============================================================================
