---------------------------- MODULE D42Substitute ----------------------------
(***************************************************************************)
(* Operational models of d42.utils.from_native and of                      *)
(* d42.substitution.Substitutor (with its SubstitutorValidator, mode "sub" *)
(* of D42Validate.Errors).                                                 *)
(*   FromNative(v) / Subst(s, v) = [ok |-> TRUE,  s |-> schema]            *)
(*                               | [ok |-> FALSE, exc |-> exception type]  *)
(***************************************************************************)
EXTENDS D42Findings

SOk(s) == [ok |-> TRUE, s |-> s]
SErr(e) == [ok |-> FALSE, exc |-> e]

(***************************************************************************)
(* from_native: the isinstance ladder, in the code's order                 *)
(***************************************************************************)
RECURSIVE FromNative(_), FromNativeAll(_, _, _), FromNativePairs(_, _, _)

FromNativeAll(items, i, acc) ==
  IF i > Len(items) THEN SOk(acc)
  ELSE LET r == FromNative(items[i])
       IN  IF r.ok THEN FromNativeAll(items, i + 1, Append(acc, r.s)) ELSE r

FromNativePairs(pairs, i, acc) ==
  IF i > Len(pairs) THEN SOk(acc)
  ELSE LET r == FromNative(pairs[i].val)
       IN  IF ~r.ok THEN r
           \* DictSchema.__call__ on the dict comprehension: `...` / optional keys get their
           \* declaration-time meaning; plain keys are required
           ELSE IF IsEll(pairs[i].key) THEN SErr(IF DEV_EllipsisKeyCarriesValue THEN "DeclarationError" ELSE "ValueError")
           ELSE FromNativePairs(pairs, i + 1,
                                KeysPut(acc, IF pairs[i].key.k = "optional"
                                             THEN DKey(pairs[i].key.key, r.s, TRUE)
                                             ELSE DKey(pairs[i].key, r.s, FALSE)))

FromNative(v) ==
  IF v.k = "none" THEN SOk(BareNone)
  ELSE IF IsA(v, "bool") THEN SOk([BareBool EXCEPT !.value = Some(v)])
  ELSE IF IsA(v, "int") THEN SOk([BareInt EXCEPT !.value = Some(v)])
  ELSE IF IsA(v, "float") THEN SOk([BareFloat EXCEPT !.value = Some(v)])
  ELSE IF IsA(v, "str") THEN SOk([BareStr EXCEPT !.value = Some(v)])
  ELSE IF IsA(v, "list") THEN
       LET r == FromNativeAll(Base(v).items, 1, <<>>)
       IN  IF r.ok THEN SOk([BareList EXCEPT !.elems = Some(r.s)]) ELSE r
  ELSE IF IsA(v, "dict") THEN
       LET r == FromNativePairs(Base(v).pairs, 1, <<>>)
       IN  IF r.ok THEN SOk([BareDict EXCEPT !.keys = Some(r.s)]) ELSE r
  ELSE IF IsA(v, "bytes") THEN SOk([BareBytes EXCEPT !.value = Some(v)])
  ELSE IF IsA(v, "uuid") /\ Base(v).ver = 4 THEN SOk([BareUuid EXCEPT !.value = Some(v)])
  ELSE IF IsA(v, "datetime") THEN SOk([BareDatetime EXCEPT !.value = Some(v)])
  ELSE IF IsA(v, "date") THEN SOk([BareDate EXCEPT !.value = Some(v)])
  ELSE SErr("ValueError")

\* Substitutor._from_native: ValueError becomes SubstitutionError
SubFromNative(v) == LET r == FromNative(v) IN
                    IF r.ok THEN r
                    ELSE IF r.exc = "ValueError" THEN SErr("SubstitutionError") ELSE r

(***************************************************************************)
(* Substitutor                                                             *)
(***************************************************************************)
\* the validation step shared by every visit_*: Some(exception name) | NoneOpt
SubValidate(s, v) ==
  LET e == Errors(s, v, <<>>, "sub")
  IN  IF HasExc(e) THEN Some(FirstExc(e).exc)
      ELSE IF e # <<>> THEN Some("SubstitutionError") ELSE NoneOpt

RECURSIVE Subst(_, _), SubstElems(_, _, _, _, _), SubstTyped(_, _, _, _), SubFromNativeAll(_, _, _),
          SubstBody(_, _, _, _), SubstKeys(_, _, _, _), SubstAny(_, _, _, _)

SubFromNativeAll(items, i, acc) ==
  IF i > Len(items) THEN SOk(acc)
  ELSE LET r == IF IsEll(items[i]) THEN SOk(VEllipsis) ELSE SubFromNative(items[i])
       IN  IF r.ok THEN SubFromNativeAll(items, i + 1, Append(acc, r.s)) ELSE r

\* _substitute_elements(value, elements, start): the window, then the rest via from_native
SubstElems(elems, items, start, i, acc) ==
  IF i > Len(elems)
  THEN LET after == SubFromNativeAll(SubSeq(items, start + Len(elems) + 1, Len(items)), 1, <<>>)
       IN  IF ~after.ok THEN after
           ELSE LET before == SubFromNativeAll(SubSeq(items, 1, start), 1, <<>>)
                IN  IF ~before.ok THEN before ELSE SOk(before.s \o acc \o after.s)
  ELSE LET real == start + (i - 1)
       IN  IF real >= Len(items) THEN SErr("SubstitutionError")
           \* an Ellipsis object left in the element list has no __accept__
           ELSE IF IsEll(elems[i]) THEN SErr("AttributeError")
           ELSE LET r == Subst(elems[i], items[real + 1])
                IN  IF r.ok THEN SubstElems(elems, items, start, i + 1, Append(acc, r.s)) ELSE r

SubstTyped(ty, items, i, acc) ==
  IF i > Len(items) THEN SOk(acc)
  ELSE IF IsEll(items[i]) THEN SubstTyped(ty, items, i + 1, Append(acc, VEllipsis))
  ELSE LET r == Subst(ty, items[i])
       IN  IF r.ok THEN SubstTyped(ty, items, i + 1, Append(acc, r.s)) ELSE r

\* contains form: the first window that substitutes; NoneOpt when every window refuses
\* (a non-SubstitutionError escapes immediately)
SubstBody(conc, items, w, dummy) ==
  IF w >= Len(items) THEN [found |-> FALSE, r |-> SErr("SubstitutionError")]
  ELSE LET r == SubstElems(conc, items, w, 1, <<>>)
       IN  IF r.ok THEN [found |-> TRUE, r |-> r]
           ELSE IF r.exc # "SubstitutionError" THEN [found |-> TRUE, r |-> r]
           ELSE SubstBody(conc, items, w + 1, dummy)

SubstKeys(keys, i, v, acc) ==
  IF i > Len(keys) THEN SOk(acc)
  ELSE LET k == keys[i] IN
       IF ~IsEll(k.key) /\ DictHas(v.pairs, k.key)
       THEN LET given == DictGet(v.pairs, k.key)
            IN  IF IsEll(given) THEN SubstKeys(keys, i + 1, v, Append(acc, DKey(k.key, k.val, FALSE)))
                ELSE LET r == Subst(k.val, given)
                     IN  IF r.ok THEN SubstKeys(keys, i + 1, v, Append(acc, DKey(k.key, r.s, FALSE))) ELSE r
       ELSE SubstKeys(keys, i + 1, v, Append(acc, k))

SubstAny(types, i, v, acc) ==
  IF i > Len(types) THEN SOk(acc)
  ELSE LET r == Subst(types[i], v)
       IN  IF r.ok THEN SubstAny(types, i + 1, v, Append(acc, r.s))
           ELSE IF r.exc = "SubstitutionError" THEN SubstAny(types, i + 1, v, acc)
           ELSE r

SubstList(s, v0) ==
  LET v == Base(v0)
      items == v.items
  IN
  IF Len(items) > 0 /\ \A i \in DOMAIN items : IsEll(items[i]) THEN SErr("SubstitutionError")
  ELSE IF IsNone(s.elems) /\ ~DEV_PlaceholderBetweenElements
          /\ \E i \in DOMAIN items : IsEll(items[i]) /\ 1 < i /\ i < Len(items)
  THEN SErr("SubstitutionError")             \* `...` must be first or last element (typed or not)
  ELSE IF IsNone(s.elems) /\ IsNone(s.type)
  THEN LET r == SubFromNativeAll(items, 1, <<>>)
       IN  IF r.ok THEN SOk([s EXCEPT !.elems = Some(r.s)]) ELSE r
  ELSE IF IsSome(s.type)
  THEN LET r == SubstTyped(Get(s.type), items, 1, <<>>)
       IN  IF r.ok THEN SOk([s EXCEPT !.elems = Some(r.s), !.type = NoneOpt]) ELSE r
  ELSE IF \E i \in DOMAIN items : IsEll(items[i]) THEN SErr("SubstitutionError")
  ELSE
  LET elems == Get(s.elems)
      form == ListForm(elems)
      n == Len(elems)
      finish(r) == IF r.ok THEN SOk([s EXCEPT !.elems = Some(r.s)]) ELSE r
  IN  IF form = "body"
      THEN LET b == SubstBody(SubSeq(elems, 2, n - 1), items, 0, 0)
           IN  IF b.found THEN finish(b.r)
               \* every window refused: the code falls through to the head branch with
               \* the leading `...` still in the element list
               ELSE IF DEV_ContainsFallsThrough
                    THEN finish(SubstElems(SubSeq(elems, 1, n - 1), items, 0, 1, <<>>))
                    ELSE SErr("SubstitutionError")
      ELSE IF form = "head" THEN finish(SubstElems(SubSeq(elems, 1, n - 1), items, 0, 1, <<>>))
      ELSE IF form = "tail"
           THEN finish(SubstElems(SubSeq(elems, 2, n), items, DMax2(0, Len(items) - (n - 1)), 1, <<>>))
      ELSE finish(SubstElems(elems, items, 0, 1, <<>>))

\* untyped / relaxed-only dict: every given key through from_native, all required
RECURSIVE SubNativePairs(_, _, _)
SubNativePairs(pairs, i, acc) ==
  IF i > Len(pairs) THEN SOk(acc)
  ELSE IF IsEll(pairs[i].val) /\ ~IsEll(pairs[i].key) /\ ~DEV_PlaceholderUnderUndeclaredKey
       THEN SErr("SubstitutionError")        \* nothing is declared for the placeholder to stand for
  ELSE IF IsEll(pairs[i].key) /\ ~IsEll(pairs[i].val) /\ ~DEV_EllipsisKeyCarriesValue
       THEN SErr("SubstitutionError")        \* `...` stands for "other keys": it cannot carry a value
  ELSE IF IsEll(pairs[i].val) THEN SubNativePairs(pairs, i + 1, KeysPut(acc, DKey(pairs[i].key, VEllipsis, FALSE)))
  ELSE LET r == SubFromNative(pairs[i].val)
       IN  IF r.ok THEN SubNativePairs(pairs, i + 1, KeysPut(acc, DKey(pairs[i].key, r.s, FALSE))) ELSE r

SubstDict(s, v0) ==
  LET v == Base(v0) IN
  IF IsNone(s.keys) \/ (Len(Get(s.keys)) = 1 /\ IsRelaxed(Get(s.keys)))
  THEN LET r == SubNativePairs(v.pairs, 1, <<>>)
       IN  IF ~r.ok THEN r
           ELSE SOk([s EXCEPT !.keys = Some(IF IsSome(s.keys) THEN Append(r.s, DKey(VEllipsis, VEllipsis, FALSE))
                                            ELSE r.s)])
  ELSE IF DictHas(v.pairs, VEllipsis) THEN SErr("SubstitutionError")
  ELSE LET r == SubstKeys(Get(s.keys), 1, v, <<>>)
       IN  IF ~r.ok THEN r
           ELSE IF \E j \in DOMAIN v.pairs : ~KeysHas(Get(s.keys), v.pairs[j].key)
                THEN SErr("SubstitutionError")
                ELSE SOk([s EXCEPT !.keys = Some(r.s)])

Subst(s, v) ==
  IF s.t = "alias"
  THEN LET r == Subst(s.type, v) IN IF r.ok THEN SOk([s EXCEPT !.type = r.s]) ELSE r
  ELSE IF s.t = "custom"
  THEN LET r == Subst(s.inner, v) IN IF r.ok THEN SOk([s EXCEPT !.inner = r.s]) ELSE r
  ELSE
  LET bad == SubValidate(s, v) IN
  IF IsSome(bad) THEN SErr(Get(bad))
  ELSE CASE s.t = "none" -> SOk(s)
         [] s.t \in {"bool", "int", "float", "str", "bytes", "uuid4", "datetime", "date"} ->
              SOk([s EXCEPT !.value = Some(v)])
         [] s.t = "list" -> SubstList(s, v)
         [] s.t = "dict" -> SubstDict(s, v)
         [] s.t = "any" ->
              IF IsNone(s.types)
              THEN LET r == SubFromNative(v) IN IF r.ok THEN SOk([s EXCEPT !.types = Some(<<r.s>>)]) ELSE r
              ELSE LET r == SubstAny(Get(s.types), 1, v, <<>>)
                   IN  IF ~r.ok THEN r
                       ELSE IF r.s = <<>> /\ ~DEV_AnyLeftEmpty THEN SErr("SubstitutionError")
                       ELSE SOk([s EXCEPT !.types = Some(r.s)])

(***************************************************************************)
(* Vocabulary of the substitution properties                               *)
(***************************************************************************)
RECURSIVE IsPlain(_)
\* built from None, bool, int, float, str, bytes, v4 UUID, datetime, date, lists, dicts
IsPlain(v) ==
  CASE v.k \in {"none", "bool", "int", "str", "bytes", "datetime", "date"} -> TRUE
    [] v.k = "float" -> v.sp = "fin"
    [] v.k = "uuid" -> v.ver = 4
    [] v.k = "list" -> \A i \in DOMAIN v.items : IsPlain(v.items[i])
    [] v.k = "dict" -> \A i \in DOMAIN v.pairs : IsPlain(v.pairs[i].key) /\ IsPlain(v.pairs[i].val)
    [] OTHER -> FALSE

RECURSIVE Carries(_, _)
\* w carries the data of v at the positions v specifies
Carries(w0, v) ==
  LET w == Base(w0) IN
  CASE v.k = "list" -> /\ w.k = "list" /\ Len(w.items) = Len(v.items)
                       /\ \A i \in DOMAIN v.items : Carries(w.items[i], v.items[i])
    [] v.k = "dict" -> /\ w.k = "dict"
                       /\ \A i \in DOMAIN v.pairs :
                             /\ DictHas(w.pairs, v.pairs[i].key)
                             /\ Carries(DictGet(w.pairs, v.pairs[i].key), v.pairs[i].val)
    [] v.k = "float" -> \/ VEq(w, v)
                        \/ (w.k = "float" /\ w.sp = "fin" /\ v.sp = "fin" /\ DAbs(w.q - v.q) < 100)
    [] OTHER -> VEq(w, v)

\* dict keys of s that v does not mention keep their schema and optionality in r
UnspecifiedKeysKept(s, v, r) ==
  (s.t = "dict" /\ IsSome(s.keys) /\ r.t = "dict" /\ IsSome(r.keys) /\ Base(v).k = "dict"
   /\ ~(Len(Get(s.keys)) = 1 /\ IsRelaxed(Get(s.keys)))) =>
     \A i \in DOMAIN Get(s.keys) :
        LET k == Get(s.keys)[i] IN
        (IsEll(k.key) \/ ~DictHas(Base(v).pairs, k.key)) =>
           \E j \in DOMAIN Get(r.keys) : Get(r.keys)[j] = k

=============================================================================
