---------------------------- MODULE D42Values ----------------------------
(***************************************************************************)
(* The abstract value domain of the d42 specification.                     *)
(*                                                                         *)
(* Python values are tagged records; every kind uses its own field names   *)
(* so that TLC never compares fields of different TLA+ types.  Text is a   *)
(* sequence of code points.  Ints are an order-embedding of Python ints    *)
(* (landmarks +-1000 stand for 2**63-1 / -2**63, see harness/absmap.py).   *)
(* Floats are integers in units of 1/100 plus a tag for inf/-inf/nan.      *)
(* Optional things are sequences of length 0 or 1 (None / Some(x)).        *)
(***************************************************************************)
EXTENDS Integers, Sequences, FiniteSets, TLC

\* used by the self-tests to switch a known-finding carve-out off (cfg: Known... <- Never...)
Never0 == FALSE
Never1(x) == FALSE
Never2(x, y) == FALSE

NoneOpt == <<>>
Some(x) == <<x>>
IsSome(o) == o # <<>>
IsNone(o) == o = <<>>
Get(o) == o[1]

DMax2(a, b) == IF a >= b THEN a ELSE b
DMin2(a, b) == IF a <= b THEN a ELSE b
DAbs(a) == IF a < 0 THEN -a ELSE a

SeqToSet(s) == {s[i] : i \in DOMAIN s}
SeqHas(s, x) == \E i \in DOMAIN s : s[i] = x

(***************************************************************************)
(* Constructors                                                            *)
(***************************************************************************)
VNone == [k |-> "none"]
VBool(b) == [k |-> "bool", tf |-> b]
VInt(n) == [k |-> "int", n |-> n]
VFloat(q) == [k |-> "float", q |-> q, sp |-> "fin"]
VInf == [k |-> "float", q |-> 0, sp |-> "inf"]
VNegInf == [k |-> "float", q |-> 0, sp |-> "-inf"]
VNan == [k |-> "float", q |-> 0, sp |-> "nan"]
VStr(s) == [k |-> "str", s |-> s]
VBytes(s) == [k |-> "bytes", bs |-> s]
VList(items) == [k |-> "list", items |-> items]
VDict(pairs) == [k |-> "dict", pairs |-> pairs]        \* Seq of [key |-> v, val |-> v]
VUuid(ver, id) == [k |-> "uuid", ver |-> ver, id |-> id]
VDatetime(id) == [k |-> "datetime", dt |-> id]
VDate(id) == [k |-> "date", d |-> id]
VEllipsis == [k |-> "ellipsis"]
VNil == [k |-> "nil"]                                  \* niltype.Nil passed as a value
\* anything else: cls names the Python class, isa lists the modelled built-in bases it
\* is an instance of, base is Some(v) when it compares equal to the plain value v.
VObj(cls, isa, base) == [k |-> "obj", cls |-> cls, isa |-> isa, base |-> base]

KV(key, val) == [key |-> key, val |-> val]

INT_MAX == 1000
INT_MIN == -1000
FLOAT_MAX == 100100      \* float(2**63-1) = 2**63 exactly, in 1/100 units of the int scale
FLOAT_MIN == -100000

(***************************************************************************)
(* isinstance lattice                                                      *)
(***************************************************************************)
Kinds(v) ==
  CASE v.k = "bool" -> {"bool", "int"}
    [] v.k = "datetime" -> {"datetime", "date"}
    [] v.k = "obj" -> SeqToSet(v.isa) \cup (IF SeqHas(v.isa, "datetime") THEN {"date"} ELSE {})
    [] OTHER -> {v.k}

IsA(v, T) == T \in Kinds(v)

\* the plain value an object compares equal to (subclass instances), else itself
Base(v) == IF v.k = "obj" /\ IsSome(v.base) THEN Get(v.base) ELSE v

IsNumeric(v) == v.k \in {"bool", "int", "float"}
IsFiniteNum(v) == v.k \in {"bool", "int"} \/ (v.k = "float" /\ v.sp = "fin")

\* numeric value in 1/100 units (finite numerics only)
NumQ(v) == CASE v.k = "bool" -> IF v.tf THEN 100 ELSE 0
             [] v.k = "int" -> v.n * 100
             [] v.k = "float" -> v.q

(***************************************************************************)
(* Python ==  (after looking through subclass instances)                   *)
(***************************************************************************)
RECURSIVE VEqB(_, _)
VEqItems(a, b) == Len(a) = Len(b) /\ \A i \in DOMAIN a : VEqB(a[i], b[i])
DictHas(pairs, key) == \E i \in DOMAIN pairs : VEqB(pairs[i].key, key)
DictGet(pairs, key) == pairs[CHOOSE i \in DOMAIN pairs : VEqB(pairs[i].key, key)].val
VEqB(a0, b0) ==
  LET a == Base(a0)
      b == Base(b0)
  IN  IF IsNumeric(a) /\ IsNumeric(b)
      THEN IF IsFiniteNum(a) /\ IsFiniteNum(b) THEN NumQ(a) = NumQ(b)
           ELSE a.k = "float" /\ b.k = "float" /\ a.sp = b.sp /\ a.sp # "nan"
      ELSE IF a.k # b.k THEN FALSE
      ELSE CASE a.k = "list" -> VEqItems(a.items, b.items)
             [] a.k = "dict" -> /\ Len(a.pairs) = Len(b.pairs)
                                /\ \A i \in DOMAIN a.pairs :
                                      /\ DictHas(b.pairs, a.pairs[i].key)
                                      /\ VEqB(a.pairs[i].val, DictGet(b.pairs, a.pairs[i].key))
             [] a.k = "str" -> a.s = b.s
             [] a.k = "bytes" -> a.bs = b.bs
             [] a.k = "uuid" -> a.ver = b.ver /\ a.id = b.id
             [] a.k = "datetime" -> a.dt = b.dt
             [] a.k = "date" -> a.d = b.d
             [] a.k = "obj" -> a = b
             [] OTHER -> TRUE       \* none, ellipsis, nil: singletons
VEq(a, b) == VEqB(a, b)

\* Python's `<` on finite numerics of the same family; every comparison with nan is false
IsNanV(a) == a.k = "float" /\ a.sp = "nan"
NumLt(a, b) == ~IsNanV(a) /\ ~IsNanV(b) /\ NumQ(a) < NumQ(b)

(***************************************************************************)
(* Sized values, text helpers                                              *)
(***************************************************************************)
TextOf(v) == IF v.k = "str" THEN v.s ELSE v.bs

IsSubstrAt(sub, s, i) == /\ i + Len(sub) - 1 <= Len(s)
                         /\ \A j \in 1..Len(sub) : s[i + j - 1] = sub[j]
IsSubstr(sub, s) == \E i \in 1..(Len(s) + 1) : IsSubstrAt(sub, s, i)
AllIn(s, alphabet) == \A i \in DOMAIN s : SeqHas(alphabet, s[i])

(***************************************************************************)
(* Paths: sequences of [ix |-> n] (0-based list index) or [key |-> v]      *)
(***************************************************************************)
PIx(n) == [ix |-> n]
PKey(v) == [key |-> v]
IsIx(p) == "ix" \in DOMAIN p

RECURSIVE Locate(_, _)
\* Some(sub-value reached by following path from root) or NoneOpt
Locate(root, path) ==
  IF path = <<>> THEN Some(root)
  ELSE LET p == Head(path)
           r == Base(root)
       IN  IF IsIx(p)
           THEN IF r.k = "list" /\ p.ix >= 0 /\ p.ix < Len(r.items)
                THEN Locate(r.items[p.ix + 1], Tail(path)) ELSE NoneOpt
           ELSE IF r.k = "dict" /\ DictHas(r.pairs, p.key)
                THEN Locate(DictGet(r.pairs, p.key), Tail(path)) ELSE NoneOpt

=============================================================================
