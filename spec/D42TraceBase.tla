---------------------------- MODULE D42TraceBase ----------------------------
(***************************************************************************)
(* Trace validation skeleton.  The events recorded from the real d42 are   *)
(* read from the JSON file named by the environment variable TRACE_FILE;   *)
(* the trace machine consumes them one per step and prints a total verdict *)
(* for each: "OK", "FAIL:<clause>:<known-signature or empty>" or           *)
(* "SKIP:<reason>", plus whether the observation differs from what the     *)
(* operational model predicts (drift).  Acceptance: every event consumed.  *)
(***************************************************************************)
EXTENDS Naturals, Sequences, TLC, TLCExt, Json, IOUtils

VARIABLE tracePos

TraceEvents == JsonDeserialize(IOEnv.TRACE_FILE)

TraceInit == tracePos = 0

TraceStep(V(_), D(_)) ==
  /\ tracePos < Len(TraceEvents)
  /\ tracePos' = tracePos + 1
  /\ LET e == TraceEvents[tracePos + 1] IN PrintT(<<"V", e.id, V(e), D(e)>>)

TraceAccepted == TLCGet("stats").diameter - 1 = Len(TraceEvents)

=============================================================================
