---------------------------- MODULE Trace_D42 ----------------------------
(***************************************************************************)
(* Trace validation of recorded histories against the top-level machine    *)
(* D42.tla (C07).  The harness steps real objects through a behaviour and  *)
(* logs one event per operation (plus a "reset" event between behaviours): *)
(*   op and its arguments            as in D42.tla's hist records          *)
(*   out        the real outcome ("ok" | exception type | "errors" | ...)  *)
(*   changed    indices of pooled schemas whose observable behaviour       *)
(*              (repr, verdicts on a fixed probe set, fake under fixed     *)
(*              tapes, props) differs from the snapshot taken at creation  *)
(*   heap_changed  indices of caller-owned containers that differ from the *)
(*              caller's own copy although the operation was not a mutate  *)
(*   repeat_ok  re-running the earlier operations at this point gave the   *)
(*              same outcomes (only on the last event of a behaviour)      *)
(*   pool_abs   the real pool abstracted after the step (Some(schema)...)  *)
(* The trace machine takes the *same* action of D42.tla with the logged    *)
(* arguments, so the spec's pool/heap evolve alongside the real ones.      *)
(***************************************************************************)
EXTENDS D42, Json, IOUtils, TLCExt

VARIABLE tracePos

TraceEvents == JsonDeserialize(IOEnv.TRACE_FILE)

TraceInit == Init /\ tracePos = 0

Ev == TraceEvents[tracePos + 1]

StepFor(e) ==
  CASE e.op = "reset" -> pool' = <<>> /\ heap' = <<>> /\ hist' = <<>>
    [] e.op = "bare" -> DeclareBare(e.t)
    [] e.op = "refine" -> Refine(e.i, e.c)
    [] e.op = "new_slist" -> NewSList(e.items)
    [] e.op = "new_sdict" -> NewSDict(e.pairs)
    [] e.op = "new_value" -> NewValue(e.v)
    [] e.op = "list_from" -> ListFromHeap(e.h)
    [] e.op = "dict_from" -> DictFromHeap(e.h)
    [] e.op = "from_native" -> FromNativeHeap(e.h)
    [] e.op = "substitute" -> SubstituteHeap(e.i, e.h)
    [] e.op = "union" -> UnionOf(e.i, e.j)
    [] e.op = "add" -> AddOf(e.i, e.j)
    [] e.op = "make_required" -> MakeRequiredOf(e.i)
    [] e.op = "make_required_key" -> MakeRequiredKeyOf(e.i)
    [] e.op = "alias" -> AliasOf(e.i)
    [] e.op = "validate" -> ValidateOp(e.i, e.h)
    [] e.op = "represent" -> RepresentOp(e.i)
    [] e.op = "fake" -> FakeOp(e.i, e.tape[1])
    [] e.op = "eq" -> EqOp(e.i, e.j)
    [] e.op = "mutate" -> MutateHeap(e.h, e.edit)

\* a changed schema that was built from a caller-owned list which the caller then edited
AliasSig(e) == IF e.op = "mutate" THEN "list.call_keeps_callers_list" ELSE ""

Verdict(e) ==
  \* at every reset the harness runs a fixed battery of operations (harness/c07.py battery()) and
  \* compares the outputs with those of the battery before the previous behaviour
  IF e.op = "reset" THEN (IF e.repeat_ok THEN "OK" ELSE "FAIL:repeated_operation_gave_another_result:")
  ELSE IF e.changed # <<>> THEN "FAIL:existing_schema_changed_behaviour:" \o AliasSig(e)
  ELSE IF e.heap_changed # <<>> THEN "FAIL:operation_mutated_a_caller_owned_value:"
  ELSE IF ~e.repeat_ok THEN "FAIL:repeated_operation_gave_another_result:"
  ELSE "OK"

\* evaluated in the successor state: the spec's outcome and pool against the real ones
DriftAfter(e) ==
  IF e.op = "reset" THEN FALSE
  ELSE \/ hist'[Len(hist')].out # e.out
       \/ Len(pool') # Len(e.pool_abs)
       \/ \E k \in DOMAIN pool' : k <= Len(e.pool_abs) /\ IsSome(e.pool_abs[k])
                                  /\ Get(e.pool_abs[k]) # ObsAt(k, pool', heap')

TraceNext ==
  /\ tracePos < Len(TraceEvents)
  /\ tracePos' = tracePos + 1
  /\ StepFor(Ev)
  /\ PrintT(<<"V", Ev.id, Verdict(Ev), DriftAfter(Ev)>>)

TraceAccepted == TLCGet("stats").diameter - 1 = Len(TraceEvents)

=============================================================================
