---------------------------- MODULE D42Seed ----------------------------
(***************************************************************************)
(* Vocabulary of seeded generation (C17): the stream of draw outcomes a    *)
(* seed denotes, the schemas that exercise every draw site, and the sites  *)
(* whose outcome can depend on the interpreter's hash randomisation.       *)
(***************************************************************************)
EXTENDS D42SchemaUniverse, D42Combine

Sels == <<"lo", "hi", "lo1", "hi1", "hi", "lo", "hi1", "lo1">>
\* the tape a run sees: the stream of seed k read from position 0
TapeOfSeed(k) == [n \in 1..8 |-> Sels[((n + 3 * k) % 8) + 1]]

\* schemas that between them use every draw site
RxNeg == VPat(RRep(RClass(TRUE, <<CRange(97, 99)>>), 2, 2, FALSE))             \* [^a-c]{2}
RxNotLit == VPat(RSeq(<<RNotLit(97), RDigit>>))                                \* [^a]\d
RxMix == VPat(RSeq(<<RGroup("cap", RAlt(<<RSeq(<<RLit(97), RAny>>), RWord>>)), RRep(RClass(FALSE, <<CRange(97, 99), CLit(95)>>), 1, 3, FALSE)>>))
RxOpen33 == VPat(RRep(RClass(FALSE, <<CRange(97, 99)>>), 65, INF, FALSE))        \* [a-c]{65,}
RxPlus == VPat(RRep(RLit(97), 1, INF, FALSE))                                    \* a+
SOpen33 == [BareStr EXCEPT !.pattern = Some(RxOpen33)]
SPlus == [BareStr EXCEPT !.pattern = Some(RxPlus)]
\* (?i:ab)c+  -- a scoped inline flag, outside the modelled grammar
SFlagGroup == [BareStr EXCEPT !.pattern = Some(VPat(RRaw(<<40, 63, 105, 58, 97, 98, 41, 99, 43>>)))]
KC == VStr(<<99>>)
\* schemas that only exist as the result of an operator: [x |-> "add", a, b] is a + b
SumExpr(a, b) == [x |-> "add", a |-> a, b |-> b]
SeedSums == { SumExpr(DictOf(<<DKey(KA, SInt05, FALSE), DKey(KB, SStrAlpha, FALSE)>>), DictOf(<<DKey(KC, SInt05, FALSE)>>)),
              SumExpr(DictOf(<<DKey(KB, SStrAlpha, FALSE), DKey(VEllipsis, VEllipsis, FALSE)>>),
                      DictOf(<<DKey(KA, SInt05, FALSE), DKey(KC, SFloat01, FALSE)>>)) }
\* ... or of a helper: [x |-> "make_required", a, b = a] is make_required(a) (all keys, given as the
\* default *set* of keys); [x |-> "subst", a, b |-> schema pinned to the value] is a % value with a
\* partial value (two keys mentioned, each left partly open)
ReqExpr(a) == [x |-> "make_required", a |-> a, b |-> a]
SubstExpr(a, v) == [x |-> "subst", a |-> a, b |-> v]
TwoOpt == DictOf(<<DKey(KA, SInt05, TRUE), DKey(KB, SStrAlpha, TRUE), DKey(KC, SFloat01, FALSE)>>)
Inner == DictOf(<<DKey(KA, SInt05, FALSE), DKey(KB, SStrAlpha, FALSE)>>)
Outer == DictOf(<<DKey(KA, Inner, FALSE), DKey(KB, Inner, FALSE), DKey(KC, SInt05, FALSE)>>)
PartialV == VDict(<<KV(KB, VDict(<<KV(KA, VInt(1))>>)), KV(KA, VDict(<<KV(KA, VInt(2))>>))>>)
SeedHelpers == {ReqExpr(TwoOpt), SubstExpr(Outer, PartialV)}
IsSum(el) == "x" \in DOMAIN el
SchemaOf(el) == IF ~IsSum(el) THEN el
                ELSE IF el.x = "add" THEN Add(el.a, el.b).s
                ELSE IF el.x = "make_required" THEN MakeRequired(el.a, NoneOpt).s
                ELSE Subst(el.a, el.b).s

SeedSchemas ==
  { BareBool, BareInt, SInt05, BareFloat, SFloat01,
    [BareFloat EXCEPT !.min = Some(VFloat(25)), !.max = Some(VFloat(75)), !.precision = Some(VInt(2))],
    BareStr, SStrAlpha, [BareStr EXCEPT !.substr = Some(VStr(<<98>>)), !.max_len = Some(VInt(3))],
    [BareStr EXCEPT !.pattern = Some(RxNeg)], [BareStr EXCEPT !.pattern = Some(RxNotLit)],
    [BareStr EXCEPT !.pattern = Some(RxMix)], BareBytes,
    R_TypedLen, BareList, [BareList EXCEPT !.min_len = Some(VInt(1)), !.max_len = Some(VInt(2))],
    R_Dict, R_Any, AnyOf(<<SInt05, SStrAlpha, BareNone>>), SAlias("T", SInt05), R_Body, SOpen33, SPlus, SFlagGroup,
    \* an alphabet together with a substring whose letters it lacks (the DSL accepts the pair)
    [BareStr EXCEPT !.alphabet = Some(VStr(<<97, 98>>)), !.substr = Some(VStr(<<120, 121, 122>>)), !.min_len = Some(VInt(6))],
    \* the less used types, pinned
    SBytesA, SDate0, TypedList(SDatetime0), [TypedList(BareBytes) EXCEPT !.len = Some(VInt(2))],
    \* lists without a declared length, nested three deep (whatever depends on the nesting level)
    TypedList(TypedList(SInt05)), TypedList(TypedList(TypedList(BareBool))) }

RECURSIVE RxReadsEnv(_)
RxReadsEnv(x) ==
  CASE x.r = "notlit" -> TRUE
    [] x.r = "class" -> x.neg
    [] x.r = "raw" -> FALSE
    [] x.r \in {"group", "rep", "uns"} -> RxReadsEnv(x.body)
    [] x.r = "alt" -> \E i \in DOMAIN x.alts : RxReadsEnv(x.alts[i])
    [] x.r = "seq" -> \E i \in DOMAIN x.parts : RxReadsEnv(x.parts[i])
    [] OTHER -> FALSE
\* the draw sites whose candidates are enumerated from a Python set (hash order)
ReadsEnv(el) == \E y \in SubSchemas(SchemaOf(el)) : y.t = "str" /\ IsNone(y.value) /\ IsSome(y.pattern)
                                        /\ RxReadsEnv(Get(y.pattern).rx)

\* unfixed uuid4 / datetime / date draw from the OS and the clock: outside the property
UsesClock(el) == \E y \in SubSchemas(SchemaOf(el)) : y.t \in {"uuid4", "datetime", "date"} /\ IsNone(y.value)


=============================================================================
