---------------------------- MODULE D42ValueUniverse ----------------------------
(***************************************************************************)
(* A bounded universe of plain Python values (None, bool, int, float, str, *)
(* bytes, v4 UUID, datetime, date, lists, dicts), nested up to three levels *)
(* with representatives of each level as members of the next.              *)
(***************************************************************************)
EXTENDS D42Substitute

PlainScalars == { VNone, VBool(TRUE), VBool(FALSE), VInt(0), VInt(1), VInt(-5), VInt(INT_MAX),
                  VFloat(0), VFloat(25), VFloat(100), VInf, VStr(<<>>), VStr(<<97, 98>>), VBytes(<<97>>), VBytes(<<97, 98>>), VBytes(<<>>),
                  VUuid(4, 0), VDatetime(0), VDate(0) }
ScalarsSmall == { VNone, VBool(TRUE), VInt(1), VFloat(100), VStr(<<97, 98>>) }

KStrA == VStr(<<97>>)
KStrB == VStr(<<98>>)

ListsOf(E) == {VList(<<>>)} \cup {VList(<<a>>) : a \in E} \cup {VList(<<a, b>>) : a, b \in E}
DictsOf(E) == {VDict(<<>>)} \cup {VDict(<<KV(KStrA, a)>>) : a \in E}
              \cup {VDict(<<KV(KStrA, a), KV(KStrB, b)>>) : a, b \in E}
              \cup {VDict(<<KV(VInt(1), a), KV(VNone, a)>>) : a \in E}
              \* keys whose text could mean something to a DSL or a formatter: "a?", "{}", "..."
              \cup {VDict(<<KV(VStr(<<97, 63>>), a), KV(VStr(<<123, 125>>), a), KV(VStr(<<46, 46, 46>>), a)>>) : a \in E}

\* longer than any default the generator has for lists (16) and strings (32)
LongList == VList([j \in 1..20 |-> VInt(j)])
LongStr == VStr([j \in 1..40 |-> 97 + (j % 3)])
Values1 == ListsOf(PlainScalars) \cup DictsOf(ScalarsSmall)
           \cup {LongList, LongStr, VList(<<LongList>>), VDict(<<KV(KStrA, LongList)>>), VDict(<<KV(KStrA, LongStr)>>)}
Rep1V == { VList(<<VInt(1), VStr(<<97, 98>>)>>), VList(<<>>), VDict(<<KV(KStrA, VInt(1))>>),
           VDict(<<KV(KStrA, VBool(TRUE)), KV(KStrB, VNone)>>) }
Values2 == ListsOf(Rep1V \cup {VInt(1)}) \cup DictsOf(Rep1V)
Rep2V == { VList(<<VDict(<<KV(KStrA, VInt(1))>>), VInt(1)>>),
           VDict(<<KV(KStrA, VList(<<VInt(1), VStr(<<97, 98>>)>>)), KV(KStrB, VDict(<<KV(KStrA, VInt(1))>>))>>) }
Values3 == ListsOf(Rep2V) \cup DictsOf(Rep2V)

PlainValues(depth) ==
  PlainScalars \cup (IF depth >= 1 THEN Values1 ELSE {})
               \cup (IF depth >= 2 THEN Values2 ELSE {}) \cup (IF depth >= 3 THEN Values3 ELSE {})

\* members that are not plain values (subclasses of built-ins are left out: they are
\* instances of the built-in types as far as from_native's isinstance ladder can tell)
NonPlain == { VUuid(1, 0), VObj("tuple0", <<>>, NoneOpt), VObj("tuple12", <<>>, NoneOpt),
              VObj("set1", <<>>, NoneOpt), VObj("frozenset1", <<>>, NoneOpt),
              VObj("bytearray_ab", <<>>, NoneOpt), VObj("Decimal1", <<>>, NoneOpt),
              VObj("Fraction12", <<>>, NoneOpt), VObj("complex1", <<>>, NoneOpt),
              VObj("range3", <<>>, NoneOpt), VObj("object_a", <<>>, NoneOpt),
              VObj("type_int", <<>>, NoneOpt), VEllipsis }

\* the non-plain members that can be dict keys (hashable)
HashableNonPlain == NonPlain \ {VObj("set1", <<>>, NoneOpt), VObj("bytearray_ab", <<>>, NoneOpt)}

RECURSIVE KeyInjections(_)
\* v with one dict key, at any depth, replaced by a member of another kind
KeyInjections(v) ==
  CASE v.k = "list" -> UNION {{[v EXCEPT !.items[i] = w] : w \in KeyInjections(v.items[i])} : i \in DOMAIN v.items}
    [] v.k = "dict" -> UNION {{[v EXCEPT !.pairs[i].key = x] : x \in HashableNonPlain}
                              \cup {[v EXCEPT !.pairs[i].val = w] : w \in KeyInjections(v.pairs[i].val)}
                              : i \in DOMAIN v.pairs}
    [] OTHER -> {}

RECURSIVE ForeignOutsideKeys(_)
\* some member other than a dict key is of a kind from_native does not know
ForeignOutsideKeys(v) ==
  IF v \in NonPlain THEN TRUE
  ELSE CASE v.k = "list" -> \E i \in DOMAIN v.items : ForeignOutsideKeys(v.items[i])
         [] v.k = "dict" -> \E i \in DOMAIN v.pairs : ForeignOutsideKeys(v.pairs[i].val)
         [] v.k = "obj" -> IF IsSome(v.base) THEN ForeignOutsideKeys(Get(v.base)) ELSE TRUE
         [] v.k = "uuid" -> v.ver # 4
         [] v.k = "float" -> FALSE
         [] OTHER -> v.k \in {"ellipsis", "nil"}

RECURSIVE HasEllipsisKey(_)
HasEllipsisKey(v) ==
  CASE v.k = "list" -> \E i \in DOMAIN v.items : HasEllipsisKey(v.items[i])
    [] v.k = "dict" -> \E i \in DOMAIN v.pairs : v.pairs[i].key.k = "ellipsis" \/ HasEllipsisKey(v.pairs[i].val)
    [] OTHER -> FALSE

RECURSIVE HasForeign(_)
\* some member is of a kind from_native does not know (an instance of a *subclass* of a
\* built-in type is, for isinstance, an instance of that type: it does not count)
HasForeign(v) ==
  IF v \in NonPlain THEN TRUE
  ELSE CASE v.k = "list" -> \E i \in DOMAIN v.items : HasForeign(v.items[i])
         [] v.k = "dict" -> \E i \in DOMAIN v.pairs : HasForeign(v.pairs[i].key) \/ HasForeign(v.pairs[i].val)
         [] v.k = "obj" -> IF IsSome(v.base) THEN HasForeign(Get(v.base)) ELSE TRUE
         [] v.k = "uuid" -> v.ver # 4
         [] v.k = "float" -> FALSE
         [] OTHER -> v.k \in {"ellipsis", "nil"}

RECURSIVE SameValue(_, _)
\* equal up to Python's True/False = 1/0 identification (float tolerance is below the grid);
\* apart from that identification a value of another kind is a different value (1 is not 1.0)
SameValue(w0, v0) ==
  LET w == Base(w0)
      v == Base(v0)
  IN  IF w.k = "list" /\ v.k = "list"
      THEN Len(w.items) = Len(v.items) /\ \A i \in DOMAIN v.items : SameValue(w.items[i], v.items[i])
      ELSE IF w.k = "dict" /\ v.k = "dict"
      THEN /\ Len(w.pairs) = Len(v.pairs)
           /\ \A i \in DOMAIN v.pairs : /\ DictHas(w.pairs, v.pairs[i].key)
                                        /\ SameValue(DictGet(w.pairs, v.pairs[i].key), v.pairs[i].val)
      ELSE VEq(w, v) /\ (w.k = v.k \/ {w.k, v.k} = {"bool", "int"})

\* recorded finding (known_findings.json, from_native.dict_key_of_another_kind): from_native converts
\* the values of a dict and never looks at its keys -- a Decimal, a tuple, an optional(...) marker as
\* a key is carried into the schema instead of being refused (`...` as a key is refused)
KnownKeyOfOtherKind(v) == HasForeign(v) /\ ~ForeignOutsideKeys(v) /\ ~HasEllipsisKey(v)

=============================================================================
