---------------------------- MODULE MC_Eq ----------------------------
(***************************************************************************)
(* C15: schema equality is structural.  One state per schema `a` of the    *)
(* universe; the invariants quantify over every other schema.              *)
(***************************************************************************)
EXTENDS D42Equal

CONSTANT Depth

VARIABLES a, phase

U == EqUniverse(Depth)

\* two steps so that the (expensive) invariants are evaluated by all workers: initial
\* states are enumerated by one thread, their successors are spread over the queue
Init == a \in U /\ phase = "picked"
Next == phase = "picked" /\ phase' = "checked" /\ UNCHANGED a
Checked == phase = "checked"

GenValuesE(x) == {Gen(x, t, 0).v : t \in {t \in ConstTapes : Gen(x, t, 0).ok}}
ProbesOf(x) == UNION {{g} \cup Mutants(g, Unrelated, ExtraKeys) : g \in GenValuesE(x)}

C15_Reflexive == Checked => SEq(a, a)
C15_Symmetric == Checked => \A b \in U : SEq(a, b) = SEq(b, a)
C15_Transitive == Checked => \A b \in {x \in U : SEq(a, x)} : \A c \in U : SEq(b, c) => SEq(a, c)

\* the recorded finding: `...` compared with a schema that accepts any object
RECURSIVE HasBareAnyMember(_)
HasBareAnyMember(x) == \E y \in SubSchemas(x) : y.t = "any" /\ IsNone(y.types)
KnownMarkerVsAny(x, y) == DEV_PropsEqSchemaVsValue /\ x # y /\ (HasBareAnyMember(x) \/ HasBareAnyMember(y))

\* equal schemas give identical verdicts; hence a variant that accepts a different set is unequal
C15_EqualMeansSameVerdicts ==
  Checked => \A b \in {x \in U : SEq(a, x)} :
     \/ \A v \in ProbesOf(a) \cup ProbesOf(b) : Conforms(a, v) = Conforms(b, v)
     \/ KnownMarkerVsAny(a, b)

=============================================================================
