---------------------------- MODULE D42Declare ----------------------------
(***************************************************************************)
(* The declaration DSL as guarded actions.  Apply(s, c) is the outcome of  *)
(* calling method c.m with arguments c.a on schema s:                      *)
(*    [ok |-> TRUE,  s |-> new schema]                                     *)
(*    [ok |-> FALSE, exc |-> exception type name, why |-> rule]            *)
(* Guards are in the order the code evaluates them (it decides *which*     *)
(* error is reported, and whether a non-DeclarationError can escape).      *)
(***************************************************************************)
EXTENDS D42Schema

Call(m, a) == [m |-> m, a |-> a]

DOk(s) == [ok |-> TRUE, s |-> s]
DErr(exc, why) == [ok |-> FALSE, exc |-> exc, why |-> why]
DE(why) == DErr("DeclarationError", why)

\* first failing guard wins: guards is a sequence of <<condition, result>>
RECURSIVE FirstGuard(_, _, _)
FirstGuard(guards, n, otherwise) ==
  IF n > Len(guards) THEN otherwise
  ELSE IF guards[n][1] THEN guards[n][2] ELSE FirstGuard(guards, n + 1, otherwise)
Guarded(guards, otherwise) == FirstGuard(guards, 1, otherwise)

IsIntLike(v) == IsA(v, "int")
IsFloatLike(v) == IsA(v, "float")
IsStrLike(v) == IsA(v, "str") \/ v.k \in {"pat", "badpat"}

Arg(c, i) == IF i <= Len(c.a) THEN c.a[i] ELSE VNil

(***************************************************************************)
(* int / float                                                             *)
(***************************************************************************)
NumValueCall(s, v, ty) ==
  (IF (~IsA(v, ty))
            THEN DE("invalid_type")
          ELSE IF (IsSome(s.value))
            THEN DE("already_declared")
          ELSE IF (IsSome(s.min) \/ IsSome(s.max))
            THEN DE("already_declared")
          ELSE DOk([s EXCEPT !.value = Some(v)]))

NumMinCall(s, v, ty) ==
  (IF (~IsA(v, ty))
            THEN DE("invalid_type")
          ELSE IF (IsSome(s.min))
            THEN DE("already_declared")
          ELSE IF (IsSome(s.value) /\ NumLt(Base(Get(s.value)), Base(v)))
            THEN DE("incorrect_min")
          ELSE DOk([s EXCEPT !.min = Some(v)]))

NumMaxCall(s, v, ty) ==
  (IF (~IsA(v, ty))
            THEN DE("invalid_type")
          ELSE IF (IsSome(s.max))
            THEN DE("already_declared")
          ELSE IF (IsSome(s.value) /\ NumLt(Base(v), Base(Get(s.value))))
            THEN DE("incorrect_max")
          ELSE DOk([s EXCEPT !.max = Some(v)]))

FloatDig == 15
PrecisionCall(s, v) ==
  (IF (~IsIntLike(v))
            THEN DE("invalid_type")
          ELSE IF (~(1 <= IntOf(v) /\ IntOf(v) <= FloatDig))
            THEN DE("incorrect_precision")
          ELSE IF (IsSome(s.precision))
            THEN DE("already_declared")
          ELSE DOk([s EXCEPT !.precision = Some(v)]))

ApplyInt(s, c) ==
  CASE c.m = "value" -> NumValueCall(s, Arg(c, 1), "int")
    [] c.m = "min" -> NumMinCall(s, Arg(c, 1), "int")
    [] c.m = "max" -> NumMaxCall(s, Arg(c, 1), "int")

ApplyFloat(s, c) ==
  CASE c.m = "value" -> NumValueCall(s, Arg(c, 1), "float")
    [] c.m = "min" -> NumMinCall(s, Arg(c, 1), "float")
    [] c.m = "max" -> NumMaxCall(s, Arg(c, 1), "float")
    [] c.m = "precision" -> PrecisionCall(s, Arg(c, 1))

(***************************************************************************)
(* len(...) forms shared by str and list.  SizeOf(s) is Some(n) when the   *)
(* schema already fixes a size the new length must agree with.             *)
(*   str : the fixed value's length (all three comparisons)                *)
(*   list: the number of concrete elements; `exact` says whether there is  *)
(*         no `...` (len must equal) or some (len must be >=)              *)
(***************************************************************************)
\* each returns DOk(props) / DE(...); applied to the props being built
DeclLenStr(s, x) ==
  (IF (~IsIntLike(x))
            THEN DE("invalid_type")
          ELSE IF (IsSome(s.value) /\ Len(Get(s.value).s) # IntOf(x))
            THEN DE("incorrect_len")
          ELSE DOk([s EXCEPT !.len = Some(x)]))
DeclMinLenStr(s, x) ==
  (IF (~IsIntLike(x))
            THEN DE("invalid_type")
          ELSE IF (IsSome(s.value) /\ IntOf(x) > Len(Get(s.value).s))
            THEN DE("incorrect_min_len")
          ELSE DOk([s EXCEPT !.min_len = Some(x)]))
DeclMaxLenStr(s, x) ==
  (IF (~IsIntLike(x))
            THEN DE("invalid_type")
          ELSE IF (IsSome(s.value) /\ IntOf(x) < Len(Get(s.value).s))
            THEN DE("incorrect_max_len")
          ELSE DOk([s EXCEPT !.max_len = Some(x)]))

NConcrete(s) == Len(Concrete(Get(s.elems)))
DeclLenList(s, x) ==
  (IF (~IsIntLike(x))
            THEN DE("invalid_type")
          ELSE IF (IsSome(s.elems) /\ ~HasEll(Get(s.elems)) /\ IntOf(x) # NConcrete(s))
            THEN DE("incorrect_len")
          ELSE IF (IsSome(s.elems) /\ HasEll(Get(s.elems)) /\ IntOf(x) < NConcrete(s))
            THEN DE("incorrect_min_len")
          ELSE DOk([s EXCEPT !.len = Some(x)]))
DeclMinLenList(s, x) ==
  (IF (~IsIntLike(x))
            THEN DE("invalid_type")
          ELSE IF (IsSome(s.elems) /\ IntOf(x) > NConcrete(s))
            THEN DE("incorrect_min_len")
          ELSE DOk([s EXCEPT !.min_len = Some(x)]))
DeclMaxLenList(s, x) ==
  (IF (~IsIntLike(x))
            THEN DE("invalid_type")
          ELSE IF (IsSome(s.elems) /\ IntOf(x) < NConcrete(s))
            THEN DE("incorrect_max_len")
          ELSE DOk([s EXCEPT !.max_len = Some(x)]))

\* dispatch on the argument forms: len(n) len(n, ...) len(..., m) len(n, m)
LenForms(s, c, DLen(_, _), DMin(_, _), DMax(_, _)) ==
  LET x == Arg(c, 1)
      y == Arg(c, 2)
  IN  IF IsEll(x) THEN DMax(s, y)
      ELSE IF y = VNil THEN DLen(s, x)
      ELSE IF IsEll(y) THEN DMin(s, x)
      ELSE LET r == DMin(s, x) IN IF r.ok THEN DMax(r.s, y) ELSE r

(***************************************************************************)
(* str                                                                     *)
(***************************************************************************)
StrValueCall(s, v) ==
  (IF (~IsA(v, "str"))
            THEN DE("invalid_type")
          ELSE IF (IsSome(s.value))
            THEN DE("already_declared")
          ELSE IF (IsSome(s.len))
            THEN DE("already_declared")
          ELSE IF (IsSome(s.min_len) \/ IsSome(s.max_len))
            THEN DE("already_declared")
          ELSE IF (IsSome(s.alphabet))
            THEN DE("already_declared")
          ELSE IF (IsSome(s.substr))
            THEN DE("already_declared")
          ELSE IF (IsSome(s.pattern))
            THEN DE("already_declared")
          ELSE DOk([s EXCEPT !.value = Some(v)]))

StrLenCall(s, c) ==
  (IF (IsSome(s.len))
            THEN DE("already_declared")
          ELSE IF (IsSome(s.min_len) \/ IsSome(s.max_len))
            THEN DE("already_declared")
          ELSE IF (IsSome(s.pattern))
            THEN DE("already_declared")
          ELSE LenForms(s, c, DeclLenStr, DeclMinLenStr, DeclMaxLenStr))

StrAlphabetCall(s, v) ==
  (IF (~IsA(v, "str"))
            THEN DE("invalid_type")
          ELSE IF (IsSome(s.alphabet))
            THEN DE("already_declared")
          ELSE IF (IsSome(s.pattern))
            THEN DE("already_declared")
          ELSE IF (IsSome(s.value) /\ ~AllIn(Get(s.value).s, v.s))
            THEN DE("alphabet_missing_letters")
          ELSE DOk([s EXCEPT !.alphabet = Some(v)]))

StrContainsCall(s, v) ==
  (IF (~IsA(v, "str"))
            THEN DE("invalid_type")
          ELSE IF (IsSome(s.substr))
            THEN DE("already_declared")
          ELSE IF (IsSome(s.pattern))
            THEN DE("already_declared")
          ELSE IF (IsSome(s.value) /\ ~IsSubstr(v.s, Get(s.value).s))
            THEN DE("does_not_contain")
          ELSE DOk([s EXCEPT !.substr = Some(v)]))

StrRegexCall(s, v) ==
  (IF (~IsStrLike(v))
            THEN DE("invalid_type")
          ELSE IF (\/ IsSome(s.pattern) \/ IsSome(s.alphabet) \/ IsSome(s.len)
               \/ IsSome(s.min_len) \/ IsSome(s.substr)
               \/ (~DEV_RegexGuardIgnoresMaxLen /\ IsSome(s.max_len)))
            THEN DE("already_declared")
          ELSE IF (v.k = "badpat" /\ v.why = "error")
            THEN DE("invalid_pattern")
          ELSE IF (v.k = "badpat" /\ v.why = "overflow")
            THEN IF DEV_RegexOverflowLeaks THEN DErr("OverflowError", "regex_parser")
               ELSE DE("invalid_pattern")
          ELSE IF (v.k = "pat" /\ IsSome(s.value) /\ ~RSearch(v.rx, Get(s.value).s))
            THEN DE("does_not_match")
          ELSE DOk([s EXCEPT !.pattern = Some(v)]))

ApplyStr(s, c) ==
  CASE c.m = "value" -> StrValueCall(s, Arg(c, 1))
    [] c.m = "len" -> StrLenCall(s, c)
    [] c.m = "alphabet" -> StrAlphabetCall(s, Arg(c, 1))
    [] c.m = "contains" -> StrContainsCall(s, Arg(c, 1))
    [] c.m = "regex" -> StrRegexCall(s, Arg(c, 1))

(***************************************************************************)
(* scalars with only a value                                               *)
(***************************************************************************)
PlainValueCall(s, v, ty) ==
  (IF (~IsA(v, ty))
            THEN DE("invalid_type")
          ELSE IF (IsSome(s.value))
            THEN DE("already_declared")
          ELSE DOk([s EXCEPT !.value = Some(v)]))

Uuid4ValueCall(s, v) ==
  (IF (~IsA(v, "uuid"))
            THEN DE("invalid_type")
          ELSE IF (~DEV_Uuid4AcceptsAnyVersion /\ Base(v).ver # 4)
            THEN DE("invalid_uuid_version")
          ELSE IF (IsSome(s.value))
            THEN DE("already_declared")
          ELSE DOk([s EXCEPT !.value = Some(v)]))

(***************************************************************************)
(* list                                                                    *)
(***************************************************************************)
IsListArg(v) == IsA(v, "list")
IsSchemaArg(v) == v.k = "schema"

\* first offending element decides the error (enumerate order)
RECURSIVE ListElemsCheck(_, _)
ListElemsCheck(items, i) ==
  IF i > Len(items) THEN "ok"
  ELSE IF ~(IsSchemaArg(items[i]) \/ IsEll(items[i])) THEN "invalid_type"
  ELSE IF IsEll(items[i]) /\ i # 1 /\ i # Len(items) THEN "ellipsis_position"
  ELSE ListElemsCheck(items, i + 1)

ElemOfArg(a) == IF IsEll(a) THEN VEllipsis ELSE a.sch

ListValueCall(s, v) ==
  LET items == Base(v).items
      chk == ListElemsCheck(items, 1)
  IN
  (IF (~(IsListArg(v) \/ IsSchemaArg(v)))
            THEN DE("invalid_type")
          ELSE IF (IsSome(s.elems) \/ IsSome(s.type))
            THEN DE("already_declared")
          ELSE IF (IsSome(s.len))
            THEN DE("already_declared")
          ELSE IF (IsSome(s.min_len) \/ IsSome(s.max_len))
            THEN DE("already_declared")
          ELSE IF (IsSchemaArg(v))
            THEN DOk([s EXCEPT !.type = Some(v.sch)])
          ELSE IF (chk # "ok")
            THEN DE(chk)
          ELSE IF (Len(items) = 2 /\ IsEll(items[1]) /\ IsEll(items[2]))
            THEN DE("ellipsis_position")
          ELSE DOk([s EXCEPT !.elems = Some([i \in DOMAIN items |-> ElemOfArg(items[i])])]))

ListLenCall(s, c) ==
  (IF (IsSome(s.len))
            THEN DE("already_declared")
          ELSE IF (IsSome(s.min_len) \/ IsSome(s.max_len))
            THEN DE("already_declared")
          ELSE LenForms(s, c, DeclLenList, DeclMinLenList, DeclMaxLenList))

ApplyList(s, c) ==
  CASE c.m = "value" -> ListValueCall(s, Arg(c, 1))
    [] c.m = "len" -> ListLenCall(s, c)

(***************************************************************************)
(* dict                                                                    *)
(***************************************************************************)
\* per item, in dict order: the error (if any) of that item
DictItemCheck(p) ==
  IF IsEll(p.key) \/ IsEll(p.val)
  THEN IF ~IsEll(p.key) THEN "inappropriate_key"
       ELSE IF ~IsEll(p.val) THEN "inappropriate_value" ELSE "ok"
  ELSE IF ~IsSchemaArg(p.val) THEN "invalid_type" ELSE "ok"

RECURSIVE DictBuild(_, _, _)
DictBuild(pairs, i, acc) ==
  IF i > Len(pairs) THEN DOk(acc)
  ELSE LET p == pairs[i]
           chk == DictItemCheck(p)
       IN  IF chk # "ok" THEN DE(chk)
           ELSE LET val == ElemOfArg(p.val)
                    e == IF p.key.k = "optional" THEN DKey(p.key.key, val, TRUE)
                         ELSE DKey(p.key, val, FALSE)
                IN  DictBuild(pairs, i + 1, KeysPut(acc, e))

DictValueCall(s, v) ==
  (IF (~IsA(v, "dict"))
            THEN DE("invalid_type")
          ELSE IF (IsSome(s.keys))
            THEN DE("already_declared")
          ELSE LET r == DictBuild(Base(v).pairs, 1, <<>>)
          IN  IF r.ok THEN DOk([s EXCEPT !.keys = Some(r.s)]) ELSE r)

(***************************************************************************)
(* any                                                                     *)
(***************************************************************************)
RECURSIVE FlattenAny(_)
FlattenAny(types) ==
  IF types = <<>> THEN <<>>
  ELSE LET h == Head(types)
           rest == FlattenAny(Tail(types))
       IN  IF h.t = "any" /\ IsSome(h.types) THEN FlattenAny(Get(h.types)) \o rest
           ELSE <<h>> \o rest

AnyValueCall(s, args) ==
  (IF (\E i \in DOMAIN args : ~IsSchemaArg(args[i]))
            THEN DE("invalid_type")
          ELSE IF (IsSome(s.types))
            THEN DE("already_declared")
          ELSE DOk([s EXCEPT !.types = Some(FlattenAny([i \in DOMAIN args |-> args[i].sch]))]))

\* the | operator (Schema.__or__ = union): schema.any(self, other), for a receiver of any type
ApplyOr(s, v) ==
  IF ~IsSchemaArg(v) THEN DE("invalid_type")
  ELSE DOk([t |-> "any", types |-> Some(FlattenAny(<<s, v.sch>>))])

(***************************************************************************)
(* dispatch                                                                *)
(***************************************************************************)
Apply(s, c) ==
  IF c.m = "or" THEN ApplyOr(s, Arg(c, 1)) ELSE
  CASE s.t = "int" -> ApplyInt(s, c)
    [] s.t = "float" -> ApplyFloat(s, c)
    [] s.t = "str" -> ApplyStr(s, c)
    [] s.t = "bool" -> PlainValueCall(s, Arg(c, 1), "bool")
    [] s.t = "bytes" -> PlainValueCall(s, Arg(c, 1), "bytes")
    [] s.t = "datetime" -> PlainValueCall(s, Arg(c, 1), "datetime")
    [] s.t = "date" -> PlainValueCall(s, Arg(c, 1), "date")
    [] s.t = "uuid4" -> Uuid4ValueCall(s, Arg(c, 1))
    [] s.t = "list" -> ApplyList(s, c)
    [] s.t = "dict" -> DictValueCall(s, Arg(c, 1))
    [] s.t = "any" -> AnyValueCall(s, c.a)

\* fold a chain of calls; the first failure is the outcome of the chain
RECURSIVE ApplyChain(_, _)
ApplyChain(s, chain) ==
  IF chain = <<>> THEN DOk(s)
  ELSE LET r == Apply(s, Head(chain))
       IN  IF r.ok THEN ApplyChain(r.s, Tail(chain)) ELSE r

\* which props a successful call declares (for "re-declaring is always rejected")
DeclaredBy(t, c) ==
  CASE c.m = "value" -> (IF t = "list" THEN {"elems", "type"}
                         ELSE IF t = "dict" THEN {"keys"}
                         ELSE IF t = "any" THEN {"types"} ELSE {"value"})
    [] c.m = "len" -> {"len", "min_len", "max_len"}
    [] c.m = "contains" -> {"substr"}
    [] c.m = "regex" -> {"pattern"}
    [] OTHER -> {c.m}

IsDeclared(s, prop) == prop \in DOMAIN s /\ IsSome(s[prop])

=============================================================================
