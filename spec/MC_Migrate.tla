---------------------------- MODULE MC_Migrate ----------------------------
(***************************************************************************)
(* The layout machine of C19: a module is assembled row by row from a menu *)
(* of import forms and other statements, alone or sharing a line.          *)
(* Invariant: on every row the operational line-splice model agrees with   *)
(* the statement-level rewrite, except where a row is shared (recorded     *)
(* finding).  Every assembled module is exported; the harness renders it   *)
(* to Python source and runs the real rewrite_imports on it.               *)
(***************************************************************************)
EXTENDS D42Migrate

CONSTANTS MaxRows, Rich,
          Menu     \* "single": one statement per row; "all": rows may be shared

VARIABLES rows, newline

vars == <<rows, newline>>


ToSchema == <<<<"d42", "schema">>>>
ToOptional == <<<<"d42", "optional">>>>
ToGeneric == <<<<"d42.declaration", "GenericSchema">>>>
ToSubErr == <<<<"d42.substitution.errors", "SubstitutionError">>>>

\* import statements (form is a rendering attribute: one line, parenthesised, backslash)
ImpForm(st, form) == [st EXCEPT !.form = form]
BaseImps ==
  { [k |-> "imp", level |-> 0, mod |-> "district42", names |-> <<Nm("schema", "", ToSchema)>>, form |-> "one"],
    [k |-> "imp", level |-> 0, mod |-> "district42", names |-> <<Nm("schema", "s", ToSchema), Nm("optional", "", ToOptional)>>, form |-> "one"],
    [k |-> "imp", level |-> 0, mod |-> "district42", names |-> <<Nm("schema", "", ToSchema), Nm("GenericSchema", "G", ToGeneric)>>, form |-> "one"],
    [k |-> "imp", level |-> 0, mod |-> "district42", names |-> <<Nm("schema", "", ToSchema), Nm("not_a_v1_name", "", <<>>)>>, form |-> "one"],
    [k |-> "imp", level |-> 0, mod |-> "revolt.errors", names |-> <<Nm("SubstitutionError", "", ToSubErr)>>, form |-> "one"],
    \* "u_alias" is rendered as a non-ASCII identifier (columns counted in bytes are not columns in characters)
    [k |-> "imp", level |-> 0, mod |-> "district42", names |-> <<Nm("schema", "u_alias", ToSchema)>>, form |-> "one"],
    \* a mapped name imported from a sibling module under which it is *not* mapped: left alone
    [k |-> "imp", level |-> 0, mod |-> "revolt", names |-> <<Nm("SubstitutionError", "", <<>>)>>, form |-> "one"],
    [k |-> "imp", level |-> 0, mod |-> "district42.types", names |-> <<Nm("schema", "", <<>>)>>, form |-> "one"],
    [k |-> "imp", level |-> 0, mod |-> "os", names |-> <<Nm("path", "", <<>>)>>, form |-> "one"],
    [k |-> "imp", level |-> 1, mod |-> "district42", names |-> <<Nm("schema", "", <<>>)>>, form |-> "one"],
    [k |-> "imp", level |-> 0, mod |-> "district42", names |-> <<Nm("*", "", <<>>)>>, form |-> "one"] }
MultiImps ==
  { [k |-> "imp", level |-> 0, mod |-> "district42", names |-> <<Nm("schema", "", ToSchema), Nm("optional", "o", ToOptional)>>, form |-> "paren"],
    [k |-> "imp", level |-> 0, mod |-> "district42", names |-> <<Nm("schema", "", ToSchema), Nm("GenericSchema", "", ToGeneric)>>, form |-> "bslash"] }
Imps == BaseImps \cup MultiImps

\* other statements: ids are rendered by the harness
\*  1 assignment  2 multi-line expression  3 plain `import district42`  4 string mentioning an import
\*  5 def with a nested import  6 try/except around an import  7 docstring  8 comment line
\*  9 assignment with non-ASCII names and text
Simple == {[k |-> "oth", id |-> i, form |-> "one"] : i \in {1, 2, 3, 4, 9}}
Compound == {[k |-> "oth", id |-> i, form |-> "one"] : i \in {5, 6, 7, 8}}

SingleRows == {<<x>> : x \in Imps \cup Simple \cup Compound}
SharedRows == {<<x, y>> : x \in Imps \cup Simple, y \in Imps \cup Simple}
RowMenu == IF Menu = "single" THEN SingleRows ELSE IF Rich THEN SingleRows \cup SharedRows
           ELSE SingleRows \cup {r \in SharedRows : r[1].form = "one" /\ r[2].form = "one" /\ (r[1].k = "imp" \/ r[2].k = "imp")}
                \cup {<<x, y>> : x \in MultiImps, y \in {s \in Simple : s.id \in {1, 2}}}
                \cup {<<y, x>> : x \in MultiImps, y \in {s \in Simple : s.id \in {1, 2}}}

Init == rows = <<>> /\ newline \in BOOLEAN
AddRow(r) == /\ Len(rows) < MaxRows
             /\ rows' = Append(rows, r)
             /\ UNCHANGED newline
Next == \E r \in RowMenu : AddRow(r)

Strip(st) == IF st.k = "imp" THEN Imp(st.level, st.mod, st.names) ELSE Oth(st.id)
StripRow(r) == [i \in DOMAIN r |-> Strip(r[i])]

SharedWithImport(r) == Len(r) > 1 /\ \E i \in DOMAIN r : IsTopImport(r[i])

\* on every row the line-splice model is the statement-level rewrite, or the row is shared
C19_RowsRewrittenAsStatements ==
  \A j \in DOMAIN rows :
     LET r == StripRow(rows[j]) IN
     \/ Expected(ImplRow(r).stmts) = Expected(r) /\ ImplRow(r).ok
     \/ SharedWithImport(r)

=============================================================================
