---------------------------- MODULE D42Findings ----------------------------
(***************************************************************************)
(* Signature predicates of the recorded findings: *where* a known defect   *)
(* can show (call site + failing condition).  They classify a failing case *)
(* and never change what is being checked; whether a signature is still    *)
(* open is decided by known_findings.json.                                 *)
(***************************************************************************)
EXTENDS D42Probe

RECURSIVE SubSchemas(_)
SubSchemas(x) ==
  {x} \cup
  CASE x.t = "list" -> (IF IsSome(x.type) THEN SubSchemas(Get(x.type)) ELSE {}) \cup
                       (IF IsSome(x.elems)
                        THEN UNION {SubSchemas(Get(x.elems)[i]) : i \in {j \in DOMAIN Get(x.elems) : ~IsEll(Get(x.elems)[j])}}
                        ELSE {})
    [] x.t = "dict" -> IF IsSome(x.keys)
                       THEN UNION {SubSchemas(Get(x.keys)[i].val) :
                                   i \in {j \in DOMAIN Get(x.keys) : ~IsEll(Get(x.keys)[j].key) /\ ~IsEll(Get(x.keys)[j].val)}}
                       ELSE {}
    [] x.t = "any" -> IF IsSome(x.types) THEN UNION {SubSchemas(Get(x.types)[i]) : i \in DOMAIN Get(x.types)} ELSE {}
    [] x.t = "alias" -> SubSchemas(x.type)
    [] x.t = "custom" -> SubSchemas(x.inner)
    [] OTHER -> {}

\* F1: precision grid truncated toward zero can leave [min, max]
SigFloatGrid(x) == x.t = "float" /\ IsNone(x.value) /\ IsSome(x.precision) /\ (IsSome(x.min) \/ IsSome(x.max))
\* F2: declared minimum above the generator's default maximum (or max below default min)
SigDefaultBound(x) ==
  \/ x.t = "int" /\ IsNone(x.value) /\ ((IsSome(x.min) /\ IsNone(x.max) /\ IntOf(Get(x.min)) > INT_MAX)
                                        \/ (IsSome(x.max) /\ IsNone(x.min) /\ IntOf(Get(x.max)) < INT_MIN))
  \/ x.t = "str" /\ IsNone(x.value) /\ IsNone(x.len) /\ IsNone(x.max_len) /\ IsSome(x.min_len)
       /\ IntOf(Get(x.min_len)) > STR_LEN_MAX
  \/ x.t = "list" /\ IsNone(x.elems) /\ IsNone(x.len) /\ IsNone(x.max_len) /\ IsSome(x.min_len)
       /\ IntOf(Get(x.min_len)) > LIST_LEN_MAX
\* F3: element list with `...` and a length the concrete elements do not reach
SigListEllLen(x) == x.t = "list" /\ IsSome(x.elems) /\ HasEll(Get(x.elems))
                    /\ (IsSome(x.len) \/ IsSome(x.min_len))
\* F4: empty alphabet
SigEmptyAlphabet(x) == x.t = "str" /\ IsNone(x.value) /\ IsSome(x.alphabet) /\ Get(x.alphabet).s = <<>>

\* F6: a string schema whose `contains` contradicts its length or alphabet is accepted by the DSL
\* although no string conforms; nested in a container that is satisfiable without it (an empty
\* typed list, an optional key, another alternative) the generator still emits its best effort
SigContradictoryStr(x) == x.t = "str" /\ IsNone(x.value) /\ IsSome(x.substr) /\ ~Sat(x)

\* a dict schema in which a proper key is mapped to the placeholder `...` instead of a schema:
\* not a schema the DSL can declare, and nothing can be done with it
\* ... or an element list with `...` between two elements
Malformed(x) ==
  \E y \in SubSchemas(x) :
     \/ y.t = "dict" /\ IsSome(y.keys) /\
          \E j \in DOMAIN Get(y.keys) : ~IsEll(Get(y.keys)[j].key) /\ IsEll(Get(y.keys)[j].val)
     \/ y.t = "list" /\ IsSome(y.elems) /\
          \E j \in DOMAIN Get(y.elems) : IsEll(Get(y.elems)[j]) /\ 1 < j /\ j < Len(Get(y.elems))

\* C09's open finding seen through fake(): a negated class that excludes the generator's whole alphabet
RECURSIVE RSubF(_)
RSubF(x) == {x} \cup CASE x.r \in {"group", "rep", "uns"} -> RSubF(x.body)
                       [] x.r = "alt" -> UNION {RSubF(x.alts[i]) : i \in DOMAIN x.alts}
                       [] x.r = "seq" -> UNION {RSubF(x.parts[i]) : i \in DOMAIN x.parts}
                       [] OTHER -> {}
SigEmptyNegClass(x) ==
  x.t = "str" /\ IsNone(x.value) /\ IsSome(x.pattern) /\ Get(x.pattern).k = "pat" /\
  \E y \in RSubF(Get(x.pattern).rx) :
     y.r = "class" /\ y.neg /\ NotInCandidates(y.items) = <<>> /\ ~NotInUnknownCat(y.items)

\* an escaping exception is the recorded float-rounding finding or nothing
FloatRoundKnown(x) == \E y \in SubSchemas(x) : y.t = "float" /\ IsSome(y.value) /\ IsSome(y.precision)

KnownGen(x) ==
  \E y \in SubSchemas(x) :
     \/ DEV_FloatGridTruncates /\ SigFloatGrid(y)
     \/ DEV_DefaultMaxBelowMin /\ SigDefaultBound(y)
     \/ DEV_ListEllipsisLenIgnored /\ SigListEllLen(y)
     \/ SigEmptyAlphabet(y)
     \/ SigFloatGrid(y) /\ IsSome(y.min) /\ IsSome(y.max)      \* F5: no grid point in [min, max]
     \/ SigContradictoryStr(y)
     \/ SigEmptyNegClass(y)


\* the open generation findings, as pure signatures (independent of the DEV_ switches)
KnownGenSig(x) ==
  \E y \in SubSchemas(x) :
     \/ SigEmptyAlphabet(y)
     \/ SigFloatGrid(y) /\ IsSome(y.min) /\ IsSome(y.max)
     \/ SigContradictoryStr(y)
     \/ SigEmptyNegClass(y)

=============================================================================
