---------------------------- MODULE Trace_C17 ----------------------------
(***************************************************************************)
(* C17 on recorded executions.  One event per (seed, sequence of schemas): *)
(*   seq     the abstract schemas                                          *)
(*   runs    one record per interpreter process (its PYTHONHASHSEED):      *)
(*           [hashseed, first, second, draws_ok]                           *)
(*           first / second: the printed values of two seeded runs in that *)
(*           process; draws_ok: every recorded draw result lies within its *)
(*           primitive's contract and both runs made the same draws        *)
(***************************************************************************)
EXTENDS D42Seed, D42TraceBase

SigT(e) == IF \E j \in DOMAIN e.seq : ReadsEnv(e.seq[j]) THEN "regex.negated_class_candidates_in_hash_order" ELSE ""

Verdict(e) ==
  IF \E j \in DOMAIN e.seq : UsesClock(e.seq[j]) THEN "SKIP:draws_from_os_or_clock"
  ELSE IF \E r \in DOMAIN e.runs : e.runs[r].first # e.runs[r].second
       THEN "FAIL:same_process_repetition_differs:" \o SigT(e)
  ELSE IF \E r1, r2 \in DOMAIN e.runs : e.runs[r1].first # e.runs[r2].first
       THEN "FAIL:differs_between_interpreter_configurations:" \o SigT(e)
  ELSE "OK"

\* the draws themselves (inside each primitive's contract, the same in both runs): the property
\* speaks of the values only
Drift(e) == \E r \in DOMAIN e.runs : ~e.runs[r].draws_ok

TraceNext == TraceStep(Verdict, Drift)

=============================================================================
