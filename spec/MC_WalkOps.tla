---------------------------- MODULE MC_WalkOps ----------------------------
(* vocabulary of the directory walk, shared by the machine and the trace spec *)
EXTENDS Integers, Sequences, FiniteSets, TLC

Places == {"root", "sub", "sub/deep", "hidden", "pycache", "hidden/sub", "sub/pycache"}
Kinds == {"py", "txt"}
Contents == {"v1import", "plain"}

File(p, k, c, n) == [place |-> p, kind |-> k, content |-> c, n |-> n]
AllFiles == {File(p, k, c, 1) : p \in Places, k \in Kinds, c \in Contents}

Visited(place) == place \in {"root", "sub", "sub/deep"}
MustRewrite(f) == Visited(f.place) /\ f.kind = "py" /\ f.content = "v1import"


=============================================================================
