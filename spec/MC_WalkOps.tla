---------------------------- MODULE MC_WalkOps ----------------------------
(* vocabulary of the directory walk, shared by the machine and the trace spec *)
EXTENDS Integers, Sequences, FiniteSets, TLC

Places == {"root", "sub", "sub/deep", "hidden", "pycache", "hidden/sub", "sub/pycache"}
Kinds == {"py", "txt"}
\* v1import_utf8: a v1 import next to non-ASCII text (UTF-8); v1import_latin1: the same saved in
\* Latin-1 with a coding cookie -- valid Python that process_file cannot read as UTF-8: it reports
\* the file and leaves it alone
Contents == {"v1import", "plain", "v1import_utf8", "v1import_latin1"}

File(p, k, c, n) == [place |-> p, kind |-> k, content |-> c, n |-> n]
AllFiles == {File(p, k, c, 1) : p \in Places, k \in Kinds, c \in Contents}

Visited(place) == place \in {"root", "sub", "sub/deep"}
Rewritable(f) == f.kind = "py" /\ f.content \in {"v1import", "v1import_utf8"}
MustRewrite(f) == Visited(f.place) /\ f.kind = "py" /\ f.content \in {"v1import", "v1import_utf8"}


=============================================================================
