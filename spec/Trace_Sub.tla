---------------------------- MODULE Trace_Sub ----------------------------
(***************************************************************************)
(* C04, C05 and C12 on recorded executions of the real substitute().       *)
(* One event per `schema % value`:                                         *)
(*   s, v      abstract schema and value                                   *)
(*   exc       "" or the exception type substitute() raised                *)
(*   rep / r   the result could be abstracted / Some(abstract result)      *)
(*   conf_sv / conf_rv   real validate(schema, v) / validate(result, v) ok *)
(*   gens      fake(result) under each constant tape:                      *)
(*               [exc, vok (result accepts it), sok (original accepts it), *)
(*                rep, w (Some(value))]                                    *)
(*   probes    [w, ok_r, ok_s]: real verdicts of result and original       *)
(*   model     the case comes from the machine (FALSE: code -> spec only)    *)
(*   again     second substitution: [exc, eq (real ==), ne (real !=)]      *)
(* Prop selects the property whose clauses decide the verdict.             *)
(***************************************************************************)
EXTENDS D42Substitute, D42TraceBase

CONSTANT Prop

RECURSIVE HasEmptyAnyT(_)
HasEmptyAnyT(x) == \E y \in SubSchemas(x) : y.t = "any" /\ IsSome(y.types) /\ Get(y.types) = <<>>

\* contains-list somewhere in the schema (where the fall-through can happen)
HasBodyList(x) == \E y \in SubSchemas(x) : y.t = "list" /\ IsSome(y.elems) /\ ListForm(Get(y.elems)) = "body"

SigAnyEmpty(e) == IF e.rep /\ e.exc = "" /\ HasEmptyAnyT(Get(e.r)) THEN "substitute.any_left_without_alternatives" ELSE ""
MalformedResult(e) == e.exc = "" /\ e.rep /\ Malformed(Get(e.r))

VerdictC12(e) ==
  IF e.exc # "" /\ e.exc # "SubstitutionError"
  THEN "FAIL:exception_type:" \o
       (IF e.exc = "AttributeError" /\ HasBodyList(e.s) THEN "substitute.contains_list_falls_through" ELSE "")
  ELSE IF e.exc # "" THEN "OK"
  ELSE IF MalformedResult(e)
       THEN "FAIL:result_holds_the_placeholder_where_the_DSL_allows_none:substitute.placeholder_where_nothing_is_declared"
  ELSE IF \E j \in DOMAIN e.gens : e.gens[j].exc # "" /\ ~(e.rep /\ KnownGenSig(Get(e.r)))
       THEN "FAIL:result_cannot_be_generated_from:" \o SigAnyEmpty(e)
  ELSE IF \E j \in DOMAIN e.gens : e.gens[j].exc = "" /\ ~e.gens[j].vok /\ ~(e.rep /\ KnownGenSig(Get(e.r)))
       THEN "FAIL:result_rejects_a_value_generated_from_it:" \o SigAnyEmpty(e)
  ELSE IF e.rep /\ ~Sat(Get(e.r)) /\ (\A j \in DOMAIN e.gens : ~e.gens[j].vok)
          /\ (\A j \in DOMAIN e.probes : ~e.probes[j].ok_r)
       THEN "FAIL:result_accepts_nothing:" \o SigAnyEmpty(e)
  ELSE IF ~IsPlain(e.v) THEN "OK"
  ELSE IF e.again.exc # "" THEN "FAIL:second_substitution_raised:" \o SigAnyEmpty(e)
  ELSE IF ~e.again.eq \/ e.again.ne THEN "FAIL:not_idempotent:" \o SigAnyEmpty(e)
  ELSE "OK"

VerdictC04(e) ==
  IF e.exc # "" THEN "SKIP:substitution_refused"
  ELSE IF MalformedResult(e) THEN "SKIP:malformed_result_is_C12s_subject"
  ELSE IF ~IsPlain(e.v) THEN "SKIP:value_not_plain"
  ELSE IF e.conf_sv /\ ~e.conf_rv THEN "FAIL:result_rejects_the_conforming_value:" \o SigAnyEmpty(e)
  ELSE IF \E j \in DOMAIN e.gens : e.gens[j].exc = "" /\ e.gens[j].rep /\ e.gens[j].vok
                                   /\ ~Carries(Get(e.gens[j].w), e.v)
       THEN "FAIL:generated_value_does_not_carry_the_data:"
  ELSE IF \E j \in DOMAIN e.probes : e.probes[j].ok_r /\ ~Carries(e.probes[j].w, e.v)
       THEN "FAIL:result_accepts_value_without_the_data:"
  ELSE IF e.rep /\ ~UnspecifiedKeysKept(e.s, e.v, Get(e.r)) THEN "FAIL:unspecified_key_changed:"
  ELSE IF \E j \in DOMAIN e.gens : e.gens[j].exc # "" \/ ~e.gens[j].vok
       THEN IF e.rep /\ KnownGenSig(Get(e.r)) THEN "SKIP:known_generation_finding"
            ELSE "FAIL:result_not_usable:" \o SigAnyEmpty(e)
  ELSE "OK"

VerdictC05(e) ==
  IF e.exc # "" THEN "SKIP:substitution_refused"
  ELSE IF MalformedResult(e) THEN "SKIP:malformed_result_is_C12s_subject"
  ELSE IF ~IsPlain(e.v) THEN "SKIP:value_not_plain"
  ELSE IF \E j \in DOMAIN e.probes : e.probes[j].ok_r /\ ~e.probes[j].ok_s
       THEN "FAIL:result_accepts_value_the_original_rejects:"
  ELSE IF \E j \in DOMAIN e.gens : e.gens[j].exc = "" /\ e.gens[j].vok /\ ~e.gens[j].sok
       THEN "FAIL:generated_value_rejected_by_the_original:"
  ELSE "OK"

Verdict(e) == CASE Prop = "C04" -> VerdictC04(e) [] Prop = "C05" -> VerdictC05(e) [] Prop = "C12" -> VerdictC12(e)

\* e.model = FALSE: the value lies outside the model's value domain (an instance of a subclass of
\* a built-in scalar type); only the clauses about real observations apply
Drift(e) ==
  e.model /\
  LET m == Subst(e.s, e.v) IN
  \/ m.ok # (e.exc = "")
  \/ ~m.ok /\ m.exc # e.exc
  \/ m.ok /\ e.rep /\ m.s # Get(e.r)

TraceNext == TraceStep(Verdict, Drift)

=============================================================================
