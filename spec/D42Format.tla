---------------------------- MODULE D42Format ----------------------------
(***************************************************************************)
(* The shape of the messages d42.validation.Formatter renders (C03, C08):  *)
(* which noun a message starts with, whether and how it names a path, and  *)
(* the phrase that states the fact.                                        *)
(*   Value <what>[ at <path>] must ... , but ... given                     *)
(*   Value[ at <path>] contains extra element at index <i> / extra key <k> *)
(*   Element <path+[i]> does not exist      Key <path+[k]> does not exist  *)
(* A path is rendered as `_` followed by one `[repr]` per accessor; the    *)
(* root path is not rendered at all (no " at ").                           *)
(***************************************************************************)
EXTENDS D42Validate

Phrase(kind) ==
  CASE kind = "type" -> "must be"
    [] kind = "value" -> "must be equal to"
    [] kind = "min_value" -> "must be greater than or equal to"
    [] kind = "max_value" -> "must be less than or equal to"
    [] kind = "length" -> "must have exactly"
    [] kind = "min_length" -> "must have at least"
    [] kind = "max_length" -> "must have at most"
    [] kind = "alphabet" -> "must contain only"
    [] kind = "substr" -> "must contain"
    [] kind = "regex" -> "must match pattern"
    [] kind = "missing_element" -> "does not exist"
    [] kind = "extra_element" -> "contains extra element at index"
    [] kind = "missing_key" -> "does not exist"
    [] kind = "extra_key" -> "contains extra key"
    [] kind = "schema_mismatch" -> "must match any of"
    [] kind = "uuid_version" -> "must be a UUID version"

Noun(kind) == CASE kind = "missing_element" -> "Element"
                [] kind = "missing_key" -> "Key"
                [] OTHER -> "Value"

\* the path a message must name: the error's path, extended by the missing index / key
NamedPath(e) ==
  CASE e.kind = "missing_element" -> Append(e.path, PIx(e.index))
    [] e.kind = "missing_key" -> Append(e.path, PKey(e.mkey))
    [] OTHER -> e.path

\* missing element / key name their path right after the noun; everything else uses " at "
\* and only when the path is not the root
UsesAt(e) == e.kind \notin {"missing_element", "missing_key"} /\ e.path # <<>>

\* m = [noun, phrase, has_at, path (parsed back from the text), parsed, paths]
\* the library's present wording (a rewording is not a violation of any property: drift)
MessageWellFormed(e, m) ==
  /\ m.noun = Noun(e.kind)
  /\ m.phrase = Phrase(e.kind)
  /\ m.has_at = UsesAt(e)
  /\ (UsesAt(e) \/ e.kind \in {"missing_element", "missing_key"}) => (m.parsed /\ m.path = NamedPath(e))

\* C03 "the rendered message names that path": whatever the wording, one of the paths written in
\* the text (`_[..][..]`, read back accessor by accessor) is the path of the error -- not a prefix
\* of it, not its leaf, not a sibling's
NeedsPath(e) == e.path # <<>> \/ e.kind \in {"missing_element", "missing_key"}
MessageNamesPath(e, m) == NeedsPath(e) => \E j \in DOMAIN m.paths : m.paths[j] = NamedPath(e)

=============================================================================
