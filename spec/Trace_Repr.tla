---------------------------- MODULE Trace_Repr ----------------------------
(***************************************************************************)
(* C06 on recorded executions.  One event per schema:                      *)
(*   s            abstract schema (built through the real DSL)             *)
(*   stable       repr(s) twice and represent(s) give the same text        *)
(*   eval_exc     "" or the exception raised by evaluating the text with   *)
(*                {schema, optional, UUID, datetime}                       *)
(*   eq           the evaluated schema == the original, and not !=         *)
(*   same_repr    repr(evaluated) is the same text                         *)
(*   denoted      the schema the text evaluates to, abstracted (<<>> if not)  *)
(*   parsed / expr  the text evaluated with a recording facade instead of  *)
(*                the real DSL: the expression tree the text denotes       *)
(***************************************************************************)
EXTENDS D42Represent, D42TraceBase

EmptyListWithLen(x) == x.t = "list" /\ IsSome(x.elems) /\ Get(x.elems) = <<>>
                       /\ (IsSome(x.len) \/ IsSome(x.min_len) \/ IsSome(x.max_len))
Sig(e) == IF \E x \in SubSchemas(e.s) : EmptyListWithLen(x) THEN "repr.empty_list_drops_len" ELSE ""

Verdict(e) ==
  IF ~e.stable THEN "FAIL:repr_not_deterministic:"
  ELSE IF e.eval_exc # "" THEN "FAIL:text_does_not_evaluate:" \o Sig(e)
  ELSE IF ~e.eq THEN "FAIL:rebuilt_schema_not_equal:" \o Sig(e)
  ELSE IF ~e.same_repr THEN "FAIL:rebuilt_schema_prints_differently:" \o Sig(e)
  \* "no declared constraint ... is lost or altered in the text": what the text evaluates to, read
  \* back through the public props, is the declaration (raw: real-float cases with a stand-in schema)
  ELSE IF ~e.raw /\ e.denoted # <<>> /\ e.denoted[1] # e.s THEN "FAIL:text_denotes_another_declaration:" \o Sig(e)
  ELSE "OK"

\* the model of the printer predicts the calls the text makes
Drift(e) ==
  /\ e.parsed
  /\ \/ EvalExpr(e.expr) # DOk(e.s)          \* the text evaluated under the spec's DSL is another schema
     \/ ~(e.expr.t = e.s.t /\ Len(e.expr.calls) = Len(ReprCalls(e.s))
          /\ \A j \in DOMAIN e.expr.calls : e.expr.calls[j].m = ReprCalls(e.s)[j].m)

TraceNext == TraceStep(Verdict, Drift)

=============================================================================
