---------------------------- MODULE MC_Rollout ----------------------------
(***************************************************************************)
(* C18: rollout is the inverse of flattening dotted keys.                  *)
(*                                                                         *)
(* A nested mapping is a set of entries <<label, optional?, sub>> where sub *)
(* is a leaf payload or again a (non-empty) set of entries; labels are     *)
(* separator-free (label 0 is the empty string), `optional` only marks     *)
(* leaves.  Flatten(T) is the flat mapping: one entry per leaf, keyed by    *)
(* the path of labels.  The machine is d42.utils.rollout as written: it     *)
(* consumes the flat keys one at a time, in an order TLC chooses, filling   *)
(* the `updated` table (a leaf under its key, or a group of tails under the *)
(* head of the key), and finally rolls out every group recursively in its   *)
(* insertion order.                                                        *)
(***************************************************************************)
EXTENDS MC_RolloutOps

CONSTANTS Depth,      \* nesting depth of the trees
          MaxLeaves

VARIABLES tree, relaxed, todo, updated, result, order

vars == <<tree, relaxed, todo, updated, result, order>>

(***************************************************************************)
(* the machine                                                             *)
(***************************************************************************)
Init == /\ tree \in {Stamp(t, <<>>) : t \in {t \in TreesOf(Depth) : CountLeaves(t) <= MaxLeaves}}
        /\ relaxed \in BOOLEAN
        /\ todo = Flatten(tree, <<>>)
        /\ updated = <<>>
        /\ result = {}
        /\ order = <<>>

Consume(f) == /\ f \in todo
              /\ todo' = todo \ {f}
              /\ updated' = ConsumeInto(updated, f)
              /\ order' = Append(order, f)
              /\ UNCHANGED <<tree, relaxed, result>>

Finish == /\ todo = {} /\ result = {}
          /\ result' = TableToTree(updated)
          /\ UNCHANGED <<tree, relaxed, todo, updated, order>>

Next == (\E f \in todo : Consume(f)) \/ Finish

Finished == todo = {} /\ result # {}

C18_RolloutInvertsFlatten == Finished => result = tree

\* a group only ever receives tails, a leaf key only ever a payload
C18_NoCollision ==
  \A i \in DOMAIN updated : updated[i].isgroup => Len(updated[i].group) >= 1

View == <<tree, relaxed, todo, updated, result>>

=============================================================================
