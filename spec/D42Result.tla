---------------------------- MODULE D42Result ----------------------------
(***************************************************************************)
(* ValidationResult (d42/validation/_validation_result.py) as a machine.   *)
(*                                                                         *)
(* A result is an append-only list of errors behind four methods.  Two     *)
(* things about it are easy to get wrong and are modelled as the code has  *)
(* them: the constructor *keeps* the list it is given, and get_errors()    *)
(* hands out the list itself -- so a caller-owned list and a result can be *)
(* the same object (heap cell).  Errors are opaque tokens here.            *)
(*                                                                         *)
(* cells    heap of lists: Seq(Seq(Err))                                   *)
(* results  Seq(cell index): which cell each result object holds           *)
(* lists    Seq(cell index): lists the caller holds (built by it, or       *)
(*          obtained from get_errors)                                      *)
(***************************************************************************)
EXTENDS Naturals, Sequences, FiniteSets, TLC

CONSTANTS MaxSteps, MaxObjs

Err == {"e1", "e2"}
Batches == {<<>>, <<"e1">>, <<"e2", "e1">>}

InitRes == [cells |-> <<>>, results |-> <<>>, lists |-> <<>>]

\* actions as records
ANew == [a |-> "new", r |-> 0, l |-> 0, e |-> "", b |-> <<>>]
ANewFrom(l) == [a |-> "new_from", r |-> 0, l |-> l, e |-> "", b |-> <<>>]          \* ValidationResult(list l)
ANewList(b) == [a |-> "new_list", r |-> 0, l |-> 0, e |-> "", b |-> b]            \* the caller builds a list
AAdd(r, e) == [a |-> "add_error", r |-> r, l |-> 0, e |-> e, b |-> <<>>]
AAddBatch(r, b) == [a |-> "add_errors", r |-> r, l |-> 0, e |-> "", b |-> b]
AAddList(r, l) == [a |-> "add_errors_list", r |-> r, l |-> l, e |-> "", b |-> <<>>]   \* add_errors(list l)
AGet(r) == [a |-> "get_errors", r |-> r, l |-> 0, e |-> "", b |-> <<>>]           \* the caller keeps what it returns
AMutate(l, e) == [a |-> "list_append", r |-> 0, l |-> l, e |-> e, b |-> <<>>]     \* the caller appends to a list it holds

Step(st, act) ==
  CASE act.a = "new" ->
         [st EXCEPT !.cells = Append(@, <<>>), !.results = Append(@, Len(st.cells) + 1)]
    [] act.a = "new_from" ->                    \* keeps the caller's list: same cell
         [st EXCEPT !.results = Append(@, st.lists[act.l])]
    [] act.a = "new_list" ->
         [st EXCEPT !.cells = Append(@, act.b), !.lists = Append(@, Len(st.cells) + 1)]
    [] act.a = "add_error" ->
         [st EXCEPT !.cells[st.results[act.r]] = Append(@, act.e)]
    [] act.a = "add_errors" ->
         [st EXCEPT !.cells[st.results[act.r]] = @ \o act.b]
    [] act.a = "add_errors_list" ->             \* iterates the given list while appending to its own:
         \* if they are the same object this never ends in Python; the machine does not offer that step
         [st EXCEPT !.cells[st.results[act.r]] = @ \o st.cells[st.lists[act.l]]]
    [] act.a = "get_errors" ->                  \* hands out the list itself
         [st EXCEPT !.lists = Append(@, st.results[act.r])]
    [] act.a = "list_append" ->
         [st EXCEPT !.cells[st.lists[act.l]] = Append(@, act.e)]

Enabled(st, act) ==
  CASE act.a \in {"new", "new_list"} -> Len(st.results) + Len(st.lists) < MaxObjs
    [] act.a = "new_from" -> act.l \in DOMAIN st.lists /\ Len(st.results) + Len(st.lists) < MaxObjs
    [] act.a \in {"add_error", "add_errors"} -> act.r \in DOMAIN st.results
    [] act.a = "add_errors_list" -> act.r \in DOMAIN st.results /\ act.l \in DOMAIN st.lists
                                    /\ st.lists[act.l] # st.results[act.r]
    [] act.a = "get_errors" -> act.r \in DOMAIN st.results /\ Len(st.results) + Len(st.lists) < MaxObjs
    [] act.a = "list_append" -> act.l \in DOMAIN st.lists

Acts(st) ==
  {ANew} \cup {ANewList(b) : b \in Batches}
  \cup {ANewFrom(l) : l \in DOMAIN st.lists}
  \cup {AAdd(r, e) : r \in DOMAIN st.results, e \in Err}
  \cup {AAddBatch(r, b) : r \in DOMAIN st.results, b \in Batches}
  \cup {AAddList(r, l) : r \in DOMAIN st.results, l \in DOMAIN st.lists}
  \cup {AGet(r) : r \in DOMAIN st.results}
  \cup {AMutate(l, "e2") : l \in DOMAIN st.lists}

\* observations
ErrorsOf(st, r) == st.cells[st.results[r]]
HasErrors(st, r) == Len(ErrorsOf(st, r)) > 0

RECURSIVE Run(_, _)
Run(st, acts) == IF acts = <<>> THEN st ELSE Run(Step(st, Head(acts)), Tail(acts))

=============================================================================
