---------------------------- MODULE Trace_C19 ----------------------------
(***************************************************************************)
(* C19 on recorded executions of the real rewrite_imports / mapping table. *)
(* Events:                                                                 *)
(*  kind = "module":  inp / out -- the top-level statements of the source  *)
(*     given to rewrite_imports and of its output, abstracted with ast:    *)
(*     [k |-> "imp", level, mod, names [n, as, to]] | [k |-> "oth", id];   *)
(*     nothing (it returned None), parses (the output is valid Python),    *)
(*     shared (some import shares its physical lines with a statement)     *)
(*  kind = "target":  one mapping entry and whether `from mod import name` *)
(*     works in this package                                               *)
(***************************************************************************)
EXTENDS D42Migrate, D42TraceBase

Sig(e) == IF e.shared THEN "migrate.import_shares_physical_lines_with_other_statement" ELSE ""

Verdict(e) ==
  IF e.kind = "target" THEN (IF e.importable THEN "OK" ELSE "FAIL:mapping_target_not_importable:")
  ELSE IF e.nothing
       THEN IF \E i \in DOMAIN e.inp : HasMappedName(e.inp[i]) THEN "FAIL:reported_nothing_to_do:" \o Sig(e) ELSE "OK"
  ELSE IF ~e.parses THEN "FAIL:output_is_not_valid_python:" \o Sig(e)
  ELSE IF Observed(e.out) # Expected(e.inp) THEN "FAIL:statements_or_bindings_not_preserved:" \o Sig(e)
  ELSE "OK"

\* the line-splice model predicts exactly when the statement-level rewrite is achieved
Drift(e) == FALSE

TraceNext == TraceStep(Verdict, Drift)

=============================================================================
