---------------------------- MODULE D42Represent ----------------------------
(***************************************************************************)
(* Operational model of d42.representation.Representor at the level of     *)
(* DSL calls: ReprCalls(s) is the sequence of calls the printed text makes  *)
(* on `schema.<type>`, in the order the printer emits them; evaluating the  *)
(* text is folding D42Declare.Apply over them.  EvalExpr evaluates a parsed *)
(* text (an expression tree recorded from the real repr) under the spec's   *)
(* DSL.                                                                     *)
(***************************************************************************)
EXTENDS D42Equal

LenCallOf(s) ==
  IF IsSome(s.len) THEN <<Call("len", <<Get(s.len)>>)>>
  ELSE IF IsSome(s.min_len) /\ IsSome(s.max_len) THEN <<Call("len", <<Get(s.min_len), Get(s.max_len)>>)>>
  ELSE IF IsSome(s.min_len) THEN <<Call("len", <<Get(s.min_len), VEllipsis>>)>>
  ELSE IF IsSome(s.max_len) THEN <<Call("len", <<VEllipsis, Get(s.max_len)>>)>>
  ELSE <<>>

OptCall(m, o) == IF IsSome(o) THEN <<Call(m, <<Get(o)>>)>> ELSE <<>>

MemberArg(x) == IF IsEll(x) THEN VEllipsis ELSE ASchema(x)

ReprCalls(s) ==
  CASE s.t = "none" -> <<>>
    [] s.t \in {"bool", "bytes", "uuid4", "datetime", "date"} -> OptCall("value", s.value)
    [] s.t = "int" -> OptCall("value", s.value) \o OptCall("min", s.min) \o OptCall("max", s.max)
    [] s.t = "float" -> OptCall("value", s.value) \o OptCall("min", s.min) \o OptCall("max", s.max)
                        \o OptCall("precision", s.precision)
    [] s.t = "str" -> OptCall("value", s.value) \o OptCall("alphabet", s.alphabet)
                      \o OptCall("contains", s.substr) \o OptCall("regex", s.pattern) \o LenCallOf(s)
    [] s.t = "list" ->
         IF IsSome(s.type) THEN <<Call("value", <<ASchema(Get(s.type))>>)>> \o LenCallOf(s)
         ELSE IF IsSome(s.elems)
         THEN LET call == Call("value", <<VList([i \in DOMAIN Get(s.elems) |-> MemberArg(Get(s.elems)[i])])>>)
              IN  IF Get(s.elems) = <<>> /\ DEV_ReprEmptyListDropsLen THEN <<call>>     \* early return
                  ELSE <<call>> \o LenCallOf(s)
         ELSE LenCallOf(s)
    [] s.t = "dict" ->
         IF IsNone(s.keys) THEN <<>>
         ELSE <<Call("value", <<VDict([i \in DOMAIN Get(s.keys) |->
                  LET k == Get(s.keys)[i] IN
                  IF IsEll(k.key) THEN KV(VEllipsis, VEllipsis)
                  ELSE KV(IF k.opt THEN VOptional(k.key) ELSE k.key, MemberArg(k.val))])>>)>>
    [] s.t = "any" ->
         IF IsNone(s.types) THEN <<>>
         ELSE <<Call("value", [i \in DOMAIN Get(s.types) |-> ASchema(Get(s.types)[i])])>>

\* the printed text evaluates, under the spec's DSL, to the schema it was printed from
ReprRoundTrips(s) == ApplyChain(Bare(s.t), ReprCalls(s)) = DOk(s)

(***************************************************************************)
(* Evaluating a recorded expression tree                                   *)
(*   expr = [k |-> "expr", t |-> type, calls |-> Seq([m, a])]              *)
(* arguments may hold nested exprs directly, inside lists, or as dict      *)
(* values.  A nested failure makes the whole evaluation fail.              *)
(***************************************************************************)
IsExpr(x) == "k" \in DOMAIN x /\ x.k = "expr"
BadArg == [k |-> "badarg"]

RECURSIVE EvalExpr(_), EvalArg(_), EvalCalls(_, _, _)

EvalArg(x) ==
  IF IsExpr(x) THEN LET r == EvalExpr(x) IN IF r.ok THEN ASchema(r.s) ELSE BadArg
  ELSE IF x.k = "list" THEN
       LET items == [i \in DOMAIN x.items |-> EvalArg(x.items[i])]
       IN  IF \E i \in DOMAIN items : items[i] = BadArg THEN BadArg ELSE VList(items)
  ELSE IF x.k = "dict" THEN
       LET pairs == [i \in DOMAIN x.pairs |-> KV(x.pairs[i].key, EvalArg(x.pairs[i].val))]
       IN  IF \E i \in DOMAIN pairs : pairs[i].val = BadArg THEN BadArg ELSE VDict(pairs)
  ELSE x

EvalCalls(s, calls, i) ==
  IF i > Len(calls) THEN DOk(s)
  ELSE LET args == [j \in DOMAIN calls[i].a |-> EvalArg(calls[i].a[j])]
       IN  IF \E j \in DOMAIN args : args[j] = BadArg THEN DErr("nested", "nested expression failed")
           ELSE LET r == Apply(s, Call(calls[i].m, args))
                IN  IF r.ok THEN EvalCalls(r.s, calls, i + 1) ELSE r

EvalExpr(x) == EvalCalls(Bare(x.t), x.calls, 1)

=============================================================================
