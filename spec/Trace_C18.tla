---------------------------- MODULE Trace_C18 ----------------------------
(***************************************************************************)
(* C18 on recorded executions of the real rollout().  One event per        *)
(* (nested mapping, order of its flat keys, separator):                    *)
(*   tree     the nested mapping (entries as sequences; leaves carry their *)
(*            path as payload id)                                          *)
(*   order    the flat entries in the order they were inserted             *)
(*   exc      "" or the exception type rollout raised                      *)
(*   res      the real result abstracted back to a tree (same encoding)    *)
(*   relaxed / relaxed_kept   a top-level `...: ...` entry was present /   *)
(*            is still there, mapped to `...`                              *)
(*   leaves_identical  every leaf of the result *is* the payload object    *)
(*   input_unchanged   the flat mapping passed in was not modified         *)
(*   identity_ok       rollout(nested mapping) == nested mapping           *)
(***************************************************************************)
EXTENDS MC_RolloutOps, D42TraceBase

RECURSIVE ToSet(_)
\* the JSON encoding uses sequences for mappings
ToSet(seqtree) == {IF seqtree[i].sub.leaf THEN Entry(seqtree[i].lab, seqtree[i].opt, Leaf(seqtree[i].sub.pay))
                   ELSE Entry(seqtree[i].lab, seqtree[i].opt, Node(ToSet(seqtree[i].sub.sub))) : i \in DOMAIN seqtree}

Verdict(e) ==
  IF e.exc # "" THEN "FAIL:rollout_raised:"
  ELSE IF ToSet(e.res) # ToSet(e.tree) THEN "FAIL:result_is_not_the_nested_mapping:"
  ELSE IF e.relaxed /\ ~e.relaxed_kept THEN "FAIL:ellipsis_entry_lost:"
  ELSE IF ~e.leaves_identical THEN "FAIL:leaf_value_touched:"
  ELSE IF ~e.input_unchanged THEN "FAIL:input_mapping_modified:"
  ELSE IF ~e.identity_ok THEN "FAIL:not_identity_on_nested_input:"
  ELSE "OK"

\* the machine's result for this insertion order
Drift(e) == e.exc = "" /\ RollSeq(e.order, 1, <<>>) # ToSet(e.res)

TraceNext == TraceStep(Verdict, Drift)

=============================================================================
