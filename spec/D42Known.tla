---------------------------- MODULE D42Known ----------------------------
(***************************************************************************)
(* Named deviations of the implementation from the intended behaviour.     *)
(* Each DEV_ switch makes the operational models reproduce a defect that   *)
(* exists (or existed) in d42; it is TRUE while the defect is in /repo and *)
(* set to FALSE by the commit that records the corresponding `fix:`.       *)
(* known_findings.json refers to the same names.                           *)
(***************************************************************************)

\* StrSchema.regex tests `len` twice and never `max_len` (C11, C06)
CONSTANT DEV_RegexGuardIgnoresMaxLen
\* StrSchema.regex lets OverflowError from the regex parser escape (C10)
CONSTANT DEV_RegexOverflowLeaks
\* UUID4Schema.__call__ accepts UUIDs of any version (C10)
CONSTANT DEV_Uuid4AcceptsAnyVersion
\* AlphabetValidationError is built with a fresh PathHolder() (C03)
CONSTANT DEV_AlphabetErrorRootPath
\* Validator.visit_float: round(value * 10**p) raises on inf / nan (C08)
CONSTANT DEV_FloatRoundRaises
\* Random.random_float truncates the precision grid toward zero (C01)
CONSTANT DEV_FloatGridTruncates
\* default generator maxima are used even when the declared minimum exceeds them (C01)
CONSTANT DEV_DefaultMaxBelowMin
\* Generator.visit_list ignores len/min_len for element lists with `...` (C01)
CONSTANT DEV_ListEllipsisLenIgnored
\* ListSchema.__call__ stores the caller's list object (C07)
CONSTANT DEV_ListCallAliases
\* Representor.visit_list returns early for an empty element list, dropping len (C06)
CONSTANT DEV_ReprEmptyListDropsLen
\* Substitutor.visit_list: contains-form falls through to the head branch (C12)
CONSTANT DEV_ContainsFallsThrough
\* Substitutor.visit_any may return an any with no alternatives (C12, C04)
CONSTANT DEV_AnyLeftEmpty
\* Substitutor.visit_dict stores `...` as the value schema of a key an undeclared dict is given (C12)
CONSTANT DEV_PlaceholderUnderUndeclaredKey
\* Substitutor.visit_list keeps `...` between two members of a value given to an undeclared list (C12)
CONSTANT DEV_PlaceholderBetweenElements
\* a `...` key carrying a value other than `...`: from_native lets DictSchema's DeclarationError
\* escape, Substitutor.visit_dict stores the converted value under the `...` key (C12, C14)
CONSTANT DEV_EllipsisKeyCarriesValue
\* Props.__eq__ compares prop values with != which reaches schema-vs-value (C15)
CONSTANT DEV_PropsEqSchemaVsValue

\* RegexGenerator compares a repeat's upper bound with the MAX_REPEAT *opcode* (44 on
\* CPython 3.12) as well as with the MAXREPEAT sentinel, so `x{m,44}` is treated as open-ended (C09)
CONSTANT DEV_RegexOpcodeAsBound

=============================================================================
