---------------------------- MODULE Trace_Entry ----------------------------
(***************************************************************************)
(* The public entry points to validation answer the same question and must *)
(* give the same answer: validate(s, v).get_errors() is empty,             *)
(* .has_errors() is false, `s == v` is true, `s != v` is false,            *)
(* validate_or_fail(s, v) returns True (and otherwise raises               *)
(* ValidationException).  Every acceptance observation any check makes     *)
(* (harness/common.py accepts()) is recorded as one combination of these   *)
(* answers; one event per distinct combination seen in the run.            *)
(*   no_errors   get_errors() was empty                                    *)
(*   has_errors  what has_errors() said                                    *)
(*   eq / ne     `s == v`, `s != v`  ("raised" when the comparison raised) *)
(*   vof         "true" | "exception" (ValidationException) | "other"      *)
(*               (rendering failed: C08's subject, no information here)    *)
(***************************************************************************)
EXTENDS D42TraceBase

Verdict(e) ==
  IF e.has_errors = e.no_errors THEN "FAIL:has_errors_disagrees_with_get_errors:"
  ELSE IF e.eq # "raised" /\ (e.eq = "true") # e.no_errors THEN "FAIL:eq_operator_disagrees_with_validate:"
  ELSE IF e.ne # "raised" /\ (e.ne = "true") = e.no_errors THEN "FAIL:ne_operator_disagrees_with_validate:"
  ELSE IF e.vof = "true" /\ ~e.no_errors THEN "FAIL:validate_or_fail_returned_true_despite_errors:"
  ELSE IF e.vof = "exception" /\ e.no_errors THEN "FAIL:validate_or_fail_raised_without_errors:"
  ELSE "OK"

Drift(e) == FALSE

TraceNext == TraceStep(Verdict, Drift)

=============================================================================
