---------------------------- MODULE D42SchemaUniverse ----------------------------
(***************************************************************************)
(* The bounded universe of *container* schemas over which the validation,  *)
(* generation and substitution machines range.  Scalar schemas come from   *)
(* the DSL machine itself (every state reachable by <= Depth calls);       *)
(* containers are composed here from a component set chosen so that every  *)
(* constraint kind, every list form and every key flavour appears, at one  *)
(* and two levels of nesting.                                              *)
(***************************************************************************)
EXTENDS D42DslUniverse

SInt05 == [BareInt EXCEPT !.min = Some(VInt(0)), !.max = Some(VInt(5))]
SStrAlpha == [BareStr EXCEPT !.alphabet = Some(VStr(<<A, B>>)), !.min_len = Some(VInt(1)),
                             !.max_len = Some(VInt(2))]
SFloat01 == [BareFloat EXCEPT !.min = Some(VFloat(0)), !.max = Some(VFloat(100))]

\* components of level-1 containers
Comp == {BareInt, SInt1, SInt05, SStrAB, SStrAlpha, BareNone, BareBool, SFloat01}
CompSmall == {SInt1, SInt05, SStrAB, SStrAlpha}

LenCallsSmall == { Call("len", <<VInt(0)>>), Call("len", <<VInt(2)>>), Call("len", <<VInt(3)>>),
                   Call("len", <<VInt(1), VEllipsis>>), Call("len", <<VInt(3), VEllipsis>>),
                   Call("len", <<VEllipsis, VInt(0)>>), Call("len", <<VEllipsis, VInt(1)>>), Call("len", <<VEllipsis, VInt(3)>>),
                   Call("len", <<VInt(1), VInt(2)>>), Call("len", <<VInt(17), VEllipsis>>) }

\* a list schema and every length refinement of it the DSL accepts
WithLens(l) == {l} \cup {Apply(l, c).s : c \in {c \in LenCallsSmall : Apply(l, c).ok}}

TypedList(e) == [BareList EXCEPT !.type = Some(e)]
ElemsList(es) == [BareList EXCEPT !.elems = Some(es)]

ElemShapes(E) ==
  {<<>>, <<VEllipsis>>}
  \cup {<<e>> : e \in E} \cup {<<e1, e2>> : e1, e2 \in E}
  \cup {<<e, VEllipsis>> : e \in E} \cup {<<e1, e2, VEllipsis>> : e1, e2 \in E}
  \cup {<<VEllipsis, e>> : e \in E} \cup {<<VEllipsis, e1, e2>> : e1, e2 \in E}
  \cup {<<VEllipsis, e, VEllipsis>> : e \in E} \cup {<<VEllipsis, e1, e2, VEllipsis>> : e1, e2 \in E}

ListsOver(ET, EE) ==
  UNION {WithLens(TypedList(e)) : e \in ET}
  \cup WithLens(BareList)
  \cup UNION {WithLens(ElemsList(es)) : es \in ElemShapes(EE)}

KeyOptions(k, E) == {<<>>} \cup {<<DKey(k, e, o)>> : e \in E, o \in BOOLEAN}
RelaxOptions == {<<>>, <<DKey(VEllipsis, VEllipsis, FALSE)>>}
DictOf(keys) == [BareDict EXCEPT !.keys = Some(keys)]

DictsOver(E) ==
  {BareDict}
  \cup {DictOf(ka \o kb \o r) : ka \in KeyOptions(KA, E), kb \in KeyOptions(KB, E), r \in RelaxOptions}
  \cup {DictOf(r \o ka) : ka \in KeyOptions(KA, E) \ {<<>>}, r \in RelaxOptions \ {<<>>}}
  \cup {DictOf(<<DKey(VInt(1), e, FALSE), DKey(VNone, e, TRUE)>>) : e \in E}

AnyOf(ts) == [BareAny EXCEPT !.types = Some(FlattenAny(ts))]
AnysOver(E) == {BareAny} \cup {AnyOf(<<e>>) : e \in E} \cup {AnyOf(<<e1, e2>>) : e1, e2 \in E}

Level1 == ListsOver(Comp, CompSmall \cup {BareAny}) \cup DictsOver(CompSmall) \cup AnysOver(CompSmall)

\* representatives of level 1 used as components of level 2
R_TypedLen == [TypedList(SInt05) EXCEPT !.min_len = Some(VInt(1)), !.max_len = Some(VInt(2))]
R_Head == ElemsList(<<SInt1, VEllipsis>>)
R_Tail == ElemsList(<<VEllipsis, SInt05>>)
R_Body == ElemsList(<<VEllipsis, SStrAB, VEllipsis>>)
R_Exact == ElemsList(<<SInt1, SStrAB>>)
R_Dict == DictOf(<<DKey(KA, SInt1, FALSE), DKey(KB, SStrAlpha, TRUE)>>)
R_DictRelaxed == DictOf(<<DKey(KA, SInt05, FALSE), DKey(VEllipsis, VEllipsis, FALSE)>>)
R_Any == AnyOf(<<SInt1, SStrAB>>)
Rep1 == {R_TypedLen, R_Head, R_Tail, R_Body, R_Exact, R_Dict, R_DictRelaxed, R_Any}
Rep1Small == {R_TypedLen, R_Body, R_Dict, R_DictRelaxed, R_Any}

Level2 == ListsOver(Rep1 \cup {SInt1}, Rep1Small) \cup DictsOver(Rep1Small) \cup AnysOver(Rep1Small \cup {SStrAB})

\* aliases and forwarding custom types around representatives
Wrapped == {SAlias("T", x) : x \in {SInt05, R_Dict, R_Body}} \cup
           {SCustom(x) : x \in {SInt05, SStrAlpha}} \cup
           {TypedList(SCustom(SInt05)), DictOf(<<DKey(KA, SAlias("T", R_Any), FALSE)>>)}

\* level-2 shapes every tier includes: nested relaxed dicts under any / contains-lists,
\* where substitution can fail after validation succeeded
SNullableStr == AnyOf(<<BareNone, SStrAlpha>>)
SFloatMinPrec == [BareFloat EXCEPT !.min = Some(VFloat(25)), !.precision = Some(VInt(1))]
SFloatMaxPrec == [BareFloat EXCEPT !.max = Some(VFloat(75)), !.precision = Some(VInt(2))]
SFloatMinMax == [BareFloat EXCEPT !.min = Some(VFloat(25)), !.max = Some(VFloat(75))]
\* scalars whose interplay of bounds, tolerance and pinned values matters to substitution
\* bounds that lie *on* the precision grid (a value just outside rounds onto the bound)
SFloatMinOnGrid == [BareFloat EXCEPT !.min = Some(VFloat(0)), !.precision = Some(VInt(1))]
SFloatMaxOnGrid == [BareFloat EXCEPT !.max = Some(VFloat(100)), !.precision = Some(VInt(1))]
SubScalars == {SFloatMinPrec, SFloatMaxPrec, SFloatMinMax, SFloat01, SInt05, SStrAlpha, SNullableStr,
               SFloatMinOnGrid, SFloatMaxOnGrid}

\* the less used types as members of containers: bytes (also the empty, falsy one), uuid4, datetime,
\* date, bool, none, a float on a precision grid -- pinned and unpinned
SBytesA == [BareBytes EXCEPT !.value = Some(VBytes(<<A>>))]
SBytesEmpty == [BareBytes EXCEPT !.value = Some(VBytes(<<>>))]
SUuid0 == [BareUuid EXCEPT !.value = Some(VUuid(4, 0))]
SDatetime0 == [BareDatetime EXCEPT !.value = Some(VDatetime(0))]
SDate0 == [BareDate EXCEPT !.value = Some(VDate(0))]
SBoolF == [BareBool EXCEPT !.value = Some(VBool(FALSE))]
SFloatPrec == [BareFloat EXCEPT !.value = Some(VFloat(25)), !.precision = Some(VInt(1))]
RarePinned == {SBytesA, SBytesEmpty, SUuid0, SDatetime0, SDate0, SBoolF, SFloatPrec}
RareBare == {BareBytes, BareUuid, BareDatetime, BareDate, BareBool, BareNone}
RareContainers ==
  {TypedList(e) : e \in RarePinned \cup RareBare}
  \cup {[TypedList(e) EXCEPT !.len = Some(VInt(2))] : e \in {SBytesA, SDate0, BareBool}}
  \cup {ElemsList(<<SBytesA, SDatetime0, SUuid0>>), ElemsList(<<SDate0, VEllipsis>>), ElemsList(<<VEllipsis, SBytesEmpty>>),
        ElemsList(<<VEllipsis, SBoolF, SDate0, VEllipsis>>)}
  \cup {DictOf(<<DKey(KA, SBytesA, FALSE), DKey(KB, SDatetime0, TRUE)>>),
        DictOf(<<DKey(KA, SUuid0, TRUE), DKey(KB, SDate0, FALSE), DKey(VEllipsis, VEllipsis, FALSE)>>),
        DictOf(<<DKey(VInt(1), SBoolF, TRUE), DKey(VNone, SBytesEmpty, FALSE)>>),
        DictOf(<<DKey(KA, BareBytes, FALSE), DKey(KB, BareDate, TRUE)>>)}
  \cup {AnyOf(<<SBytesA, SDate0>>), AnyOf(<<SDatetime0, SDate0, SUuid0, BareNone>>), AnyOf(<<BareBool, SFloatPrec>>),
        SAlias("T", SBytesA), SAlias("T", AnyOf(<<SDate0, BareNone>>))}
  \* a list typed by the schema that accepts everything (and compares equal to everything)
  \cup {TypedList(BareAny), [TypedList(BareAny) EXCEPT !.max_len = Some(VInt(3))], DictOf(<<DKey(KA, TypedList(BareAny), TRUE)>>)}
  \* floats so large that scaling them to any precision overflows, pinned with a precision
  \cup {[BareFloat EXCEPT !.value = Some(VFloat(200000)), !.precision = Some(VInt(2))],
        TypedList([BareFloat EXCEPT !.value = Some(VFloat(200000)), !.precision = Some(VInt(1))])}
  \* keys whose text means something to str.format: errors below them are rendered with that path
  \cup {DictOf(<<DKey(VStr(<<123, 125>>), SInt1, FALSE), DKey(VStr(<<123, 105, 100, 125>>), SStrAB, TRUE)>>),
        TypedList(DictOf(<<DKey(VStr(<<123, 48, 125>>), SInt05, FALSE)>>))}

Focus == RareContainers \cup AnysOver({R_DictRelaxed, R_Dict, SInt1}) \cup
         ListsOver({R_DictRelaxed}, {R_DictRelaxed, R_Any}) \cup
         DictsOver({R_Any, R_Body}) \cup
         \* nullable and optional-none members: a given None is a value like any other
         DictsOver({SNullableStr, BareNone}) \cup
         {DictOf(<<DKey(KA, SFloatMinPrec, FALSE), DKey(KB, SFloatMaxPrec, TRUE)>>), TypedList(SFloatMinPrec)} \cup
         SubScalars \cup
         \* unions with an accept-everything alternative on either side, and one wide enough to be
         \* written as (a | b) | (c | d)
         \* (four of each kind: the harness writes the members of one kind in the four ways a union can
         \* be written -- schema.any(...), a | b, a | (b | c), (a | b) | (c | d) -- in turn)
         {AnyOf(<<BareAny, x>>) : x \in {SInt1, SStrAB, BareNone, BareBool}} \cup
         {AnyOf(<<x, BareAny>>) : x \in {SInt1, SStrAB, BareNone, BareBool}} \cup
         {AnyOf(<<SInt1, SStrAB, BareNone, BareBool>>), AnyOf(<<SStrAB, SInt1, BareBool, BareNone>>),
          AnyOf(<<BareNone, BareBool, SInt1, SStrAB>>), AnyOf(<<BareBool, BareNone, SStrAB, SInt1>>)}

Containers == Level1 \cup Level2 \cup Wrapped \cup Focus

=============================================================================
