---------------------------- MODULE Trace_Native ----------------------------
(***************************************************************************)
(* C14 on recorded executions of the real from_native().  One event per    *)
(* value:  v, exc ("" | exception type), rep / r (abstract result schema), *)
(*   acc   the real validate(result, v) reported no errors                 *)
(*   gens  fake(result) under each constant tape: [exc, rep, w]            *)
(*   probes  [w, ok]: the real verdict of the result on one-step edits     *)
(***************************************************************************)
EXTENDS D42ValueUniverse, D42TraceBase

RECURSIVE PlainButInfinite(_)
PlainButInfinite(v) ==
  CASE v.k = "float" -> v.sp \in {"fin", "inf", "-inf"}
    [] v.k = "list" -> \A i \in DOMAIN v.items : PlainButInfinite(v.items[i])
    [] v.k = "dict" -> \A i \in DOMAIN v.pairs : PlainButInfinite(v.pairs[i].key) /\ PlainButInfinite(v.pairs[i].val)
    [] OTHER -> IsPlain(v)

Sig(e) == IF KnownKeyOfOtherKind(e.v) THEN "from_native.dict_key_of_another_kind" ELSE ""

Verdict(e) ==
  IF HasForeign(e.v)
  THEN IF e.exc = "ValueError" THEN "OK"
       ELSE IF e.exc = "" THEN "FAIL:non_plain_value_converted:" \o Sig(e)
       ELSE "FAIL:non_plain_value_wrong_exception:"
  \* an infinite float is a float: it must be converted (what the result accepts is left to C10's
  \* and C02's models of non-finite values)
  ELSE IF ~IsPlain(e.v) /\ PlainButInfinite(e.v)
       THEN IF e.exc # "" THEN "FAIL:plain_value_refused:" ELSE "SKIP:non_finite_float"
  ELSE IF ~IsPlain(e.v) THEN "SKIP:instance_of_a_subclass"
  ELSE IF e.exc # "" THEN "FAIL:plain_value_refused:"
  ELSE IF ~e.acc THEN "FAIL:result_rejects_its_own_value:"
  ELSE IF \E j \in DOMAIN e.gens : e.gens[j].exc # "" \/ ~e.gens[j].rep \/ Get(e.gens[j].w) # e.v
       THEN "FAIL:does_not_generate_exactly_the_value:"
  ELSE IF \E j \in DOMAIN e.probes : e.probes[j].ok /\ ~SameValue(e.probes[j].w, e.v)
       THEN "FAIL:accepts_a_different_value:"
  ELSE "OK"

Drift(e) ==
  LET m == FromNative(e.v) IN
  \/ m.ok # (e.exc = "")
  \/ ~m.ok /\ m.exc # e.exc
  \/ m.ok /\ e.rep /\ m.s # Get(e.r)

TraceNext == TraceStep(Verdict, Drift)

=============================================================================
