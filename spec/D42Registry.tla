---------------------------- MODULE D42Registry ----------------------------
(***************************************************************************)
(* The process-global extension state of d42 and the double dispatch that  *)
(* reads it.                                                               *)
(*                                                                         *)
(* Two tables live on classes, not on instances, and are therefore shared  *)
(* by everything in the interpreter:                                       *)
(*   facade   the attributes of SchemaFacade: `schema.<name>` builds an    *)
(*            instance of the class registered under <name>                *)
(*            (register_type(name, cls) = setattr(SchemaFacade, name,      *)
(*            property(...)), d42/declaration/__init__.py)                 *)
(*   own      the methods that `class E(V, extend=True)` copied onto a     *)
(*            visitor class (SchemaVisitor.__init_subclass__,              *)
(*            d42/declaration/_schema_visitor.py)                          *)
(* An operation on a schema is a double dispatch through them:             *)
(*   built-in class:  schema.__accept__(v) -> v.visit_<t>(schema)          *)
(*   any other class: Schema.__accept__(v) -> v.visit(schema)              *)
(*                      -> schema.__d42_<op>__(v) -> schema.__<op>__(v)    *)
(* The module is written as a pure step function Step(state, action) so    *)
(* that the machine (MC_Registry) and the trace validation                 *)
(* (Trace_Registry) run the same definition.  It models what the code      *)
(* does, including three deliberate-looking quirks, each named below.      *)
(***************************************************************************)
EXTENDS Naturals, Sequences, FiniteSets, TLC

Ops == {"validate", "generate", "represent", "substitute"}

LibVisitors == {"Validator", "Generator", "Representor", "Substitutor"}
UserVisitors == {"UV", "UV2"}                \* class UV(SchemaVisitor); class UV2(UV)
Visitors == LibVisitors \cup UserVisitors
\* the formatter hierarchy has the same mechanism (AbstractFormatter.__init_subclass__) with a
\* stricter filter: only names without a leading underscore are copied
FormatterCls == {"Formatter"}
Holders == Visitors \cup {"Mixin"} \cup FormatterCls    \* classes a method can be copied onto

OpOf(v) == CASE v = "Validator" -> "validate" [] v = "Generator" -> "generate"
             [] v = "Representor" -> "represent" [] v = "Substitutor" -> "substitute" [] OTHER -> "user"

\* method resolution: a visitor sees its own copied methods and those of its ancestors
Ancestors(v) == IF v = "UV2" THEN {"UV2", "UV"} ELSE {v}

(***************************************************************************)
(* schema classes                                                          *)
(***************************************************************************)
BuiltinCls == {"IntSchema", "StrSchema"}
HookCls == {"CFull", "CNoVal", "CBare"}      \* CustomSchema subclasses: all hooks / no __validate__ / none
AccCls == {"CAcc"}                           \* CustomSchema subclass overriding __accept__ -> visitor.visit_x(self)
RawCls == {"CRaw"}                           \* direct Schema subclass (no __d42_<op>__ methods)
AbstractCls == {"CustomSchema", "Schema"}    \* subclasses of Schema that refuse to be instantiated
ForeignCls == {"NotSchema"}                  \* not a subclass of Schema
Instantiable == BuiltinCls \cup HookCls \cup AccCls \cup RawCls
AllCls == Instantiable \cup AbstractCls \cup ForeignCls

Hooks(c) == CASE c = "CFull" -> Ops [] c = "CNoVal" -> Ops \ {"validate"} [] OTHER -> {}
VisitName(c) == IF c = "IntSchema" THEN "visit_int" ELSE "visit_str"

(***************************************************************************)
(* state                                                                   *)
(***************************************************************************)
Names == {"int", "x", "alias"}
Methods == {"visit_x", "visit_int", "_private", "__dunder__", "attr"}
\* what a formatter plug-in may define: a new public method, a public method the library has
\* (format_type_error), a private helper the library has (_format_path)
FormatterMethods == {"format_new", "format_type_error", "_format_path"}

InitReg == [facade |-> [n \in Names |-> CASE n = "int" -> "IntSchema" [] n = "alias" -> "method" [] OTHER -> "absent"],
            own |-> [h \in Holders |-> {}]]

Sees(reg, v, m) == \E a \in Ancestors(v) : m \in reg.own[a]

(***************************************************************************)
(* queries (pure)                                                          *)
(***************************************************************************)
AccessOut(reg, n) ==
  LET c == reg.facade[n] IN
  IF c = "absent" THEN "AttributeError"
  ELSE IF c = "method" THEN "method"
  ELSE IF c \in AbstractCls THEN "TypeError"          \* the property is there; building the instance fails
  ELSE "inst:" \o c

\* the substitutor asks a validator (SubstitutorValidator, a subclass of Validator) first, so a
\* replaced Validator.visit_<t> is what substitution of a built-in type meets
ViaValidator(reg, c, v) == v = "Substitutor" /\ Sees(reg, "Validator", VisitName(c))
Replaced(reg, c, v) == Sees(reg, v, VisitName(c)) \/ ViaValidator(reg, c, v)

DispatchOut(reg, c, v) ==
  IF c \in BuiltinCls
  THEN IF ViaValidator(reg, c, v) THEN "via_validator:ext:" \o VisitName(c)
       ELSE IF Sees(reg, v, VisitName(c)) THEN "ext:" \o VisitName(c)       \* an extension replaced the built-in visit
       ELSE IF v \in LibVisitors THEN "builtin"
       ELSE "NotImplementedError"                                       \* SchemaVisitor's stub
  ELSE IF c \in AccCls
  THEN IF Sees(reg, v, "visit_x") THEN "ext:visit_x" ELSE "AttributeError"
  ELSE \* Schema.__accept__ -> visitor.visit
       IF v \notin LibVisitors THEN "NotImplementedError"               \* "<V> has no method 'visit'"
       ELSE IF c \in RawCls THEN "NotImplementedError"                  \* "<C> has no method '__d42_<op>__'"
       ELSE IF OpOf(v) \in Hooks(c) THEN "hook:" \o OpOf(v)
       ELSE IF OpOf(v) = "represent" THEN "fallback_repr"               \* "<ClassName>"
       ELSE "NotImplementedError"                                       \* "<C> has no method '__<op>__'"

(***************************************************************************)
(* actions that change the tables                                          *)
(***************************************************************************)
RegisterAct(n, c) == [a |-> "register", name |-> n, cls |-> c, bases |-> <<>>, flag |-> "", meth |-> ""]
ExtendAct(bases, flag, m) == [a |-> "extend", name |-> "", cls |-> "", bases |-> bases, flag |-> flag, meth |-> m]

\* callable and not starting with two underscores (visitors) / with one underscore (formatters)
Copied(m) == m \in {"visit_x", "visit_int", "_private", "format_new", "format_type_error"}

\* how the default formatter renders a type error at a nested path
RenderOut(reg) ==
  IF "format_type_error" \in reg.own["Formatter"] THEN "ext:format_type_error"
  ELSE IF "_format_path" \in reg.own["Formatter"] THEN "ext:_format_path"     \* unreachable: never copied
  ELSE "default"

Step(reg, act) ==
  IF act.a = "register"
  THEN IF act.cls \in ForeignCls
       THEN [st |-> reg, out |-> "TypeError"]
       ELSE \* quirk 1: any existing attribute -- a built-in type, the alias method -- is replaced silently
            \* quirk 2: the facade is changed *before* the first instance is built, so registering
            \*          an abstract class raises TypeError and still leaves the name bound
            [st |-> [reg EXCEPT !.facade[act.name] = act.cls],
             out |-> IF act.cls \in AbstractCls THEN "TypeError" ELSE "inst:" \o act.cls]
  ELSE \* extend: class E(*bases, extend=flag) defining one attribute
       \* quirk 3: the methods go to the *first* base, whatever it is (a mixin listed first
       \*          receives them and the visitor does not); only `extend=True` itself counts
       [st |-> IF act.flag = "true" /\ Copied(act.meth)
               THEN [reg EXCEPT !.own[act.bases[1]] = @ \cup {act.meth}]
               ELSE reg,
        out |-> "ok"]

RECURSIVE Run(_, _)
Run(reg, acts) == IF acts = <<>> THEN reg ELSE Run(Step(reg, Head(acts)).st, Tail(acts))

Outs(acts) == [j \in DOMAIN acts |-> Step(Run(InitReg, SubSeq(acts, 1, j - 1)), acts[j]).out]

(***************************************************************************)
(* the alphabet of the machine                                             *)
(***************************************************************************)
BaseLists == {<<v>> : v \in {"Validator", "UV", "UV2"}} \cup {<<"Mixin", v>> : v \in {"Validator", "UV2"}}
ExtendActs == {ExtendAct(b, "true", m) : b \in BaseLists, m \in Methods}
              \cup {ExtendAct(b, f, "visit_x") : b \in BaseLists, f \in {"one", "absent"}}
              \cup {ExtendAct(<<"Formatter">>, "true", m) : m \in FormatterMethods}
              \cup {ExtendAct(<<"Formatter">>, "absent", "format_type_error")}
RegisterActs == {RegisterAct(n, c) : n \in Names, c \in AllCls}
Acts == ExtendActs \cup RegisterActs
\* the part of the alphabet that concerns message rendering (used by C03's run of the machine)
FormatterActs == {a \in ExtendActs : a.bases = <<"Formatter">>}
                 \cup {ExtendAct(<<"Validator">>, "true", "_private"), RegisterAct("x", "CFull")}
ActsFor(scope) == IF scope = "formatter" THEN FormatterActs ELSE Acts

=============================================================================
