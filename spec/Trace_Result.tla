---------------------------- MODULE Trace_Result ----------------------------
(***************************************************************************)
(* Recorded runs of the real ValidationResult: one event per history.      *)
(*   hist    the operations performed                                      *)
(*   errs    per result object: the tokens get_errors() returns at the end *)
(*   has     per result object: what has_errors() says at the end          *)
(*   shown   per result object: repr shows errors exactly when there are   *)
(*           some                                                          *)
(*   chain   every add_error / add_errors call returned the result itself  *)
(***************************************************************************)
EXTENDS D42Result, D42TraceBase

Final(e) == Run(InitRes, e.hist)

Verdict(e) ==
  IF \E r \in DOMAIN e.errs : e.has[r] # (Len(e.errs[r]) > 0)
  THEN "FAIL:has_errors_disagrees_with_get_errors:"
  ELSE "OK"

\* (repr showing the errors and add_* returning the result itself are what the class does today;
\* no listed property speaks of them)
Drift(e) ==
  \/ \E r \in DOMAIN e.errs : ~e.shown[r]
  \/ ~e.chain
  \/ Len(e.errs) # Len(Final(e).results)
  \/ \E r \in DOMAIN e.errs : r <= Len(Final(e).results) /\ e.errs[r] # ErrorsOf(Final(e), r)

TraceNext == TraceStep(Verdict, Drift)

=============================================================================
