---------------------------- MODULE MC_C11 ----------------------------
(***************************************************************************)
(* C11: constraint refinements can be declared in any order.               *)
(*                                                                         *)
(* The machine picks a type, optionally fixes a value first, and then      *)
(* grows a *set* of distinct non-value refinements one at a time (at most  *)
(* MaxSet).  In every state all permutations of the chosen set are applied *)
(* to the base schema on the operational model; the invariant says they    *)
(* all give the same outcome.  Each state is exported as one test case:    *)
(* the harness runs every permutation on the real DSL.                     *)
(***************************************************************************)
EXTENDS D42DslUniverse

CONSTANTS MaxSet, Types

VARIABLES base,    \* Some(value call) or NoneOpt: the optional value fixed first
          ty,      \* the type
          refs     \* the set of refinements chosen so far

vars == <<base, ty, refs>>

BaseSchema == IF IsSome(base) THEN Apply(Bare(ty), Get(base)).s ELSE Bare(ty)

Init == /\ ty \in Types
        /\ refs = {}
        /\ base \in {NoneOpt} \cup {Some(c) : c \in {c \in ValueCalls(ty) : Apply(Bare(ty), c).ok}}

AddRefinement(c) == /\ refs' = refs \cup {c}
                    /\ UNCHANGED <<base, ty>>

Next == /\ Cardinality(refs) < MaxSet
        /\ \E c \in Refinements(ty) \ refs : AddRefinement(c)

Perms(S) == {p \in [1..Cardinality(S) -> S] : \A a, b \in 1..Cardinality(S) : p[a] = p[b] => a = b}

Outcome(p) == LET r == ApplyChain(BaseSchema, p) IN IF r.ok THEN r ELSE [ok |-> FALSE]

\* the recorded finding: regex is refused after max_len-less guards only
KnownRegexMaxLen ==
  /\ \E c \in refs : c.m = "regex"
  /\ \E c \in refs : c.m = "len" /\ (IsEll(Arg(c, 1)) \/ (Len(c.a) = 2 /\ ~IsEll(Arg(c, 2))))

OrderIndependent ==
  \/ \A p, q \in Perms(refs) : Outcome(p) = Outcome(q)
  \/ (DEV_RegexGuardIgnoresMaxLen /\ KnownRegexMaxLen)

\* refused chains are refused with DeclarationError in every order (ties C11 to C10)
RefusedCleanly ==
  \A p \in Perms(refs) : LET r == ApplyChain(BaseSchema, p) IN r.ok \/ r.exc = "DeclarationError"

=============================================================================
