---------------------------- MODULE Trace_C01 ----------------------------
(***************************************************************************)
(* C01 on recorded executions of the real generator.  One event per        *)
(* fake(schema) run under a scripted tape of draw outcomes (or the real    *)
(* random module in the deep driver, tape = <<>>):                         *)
(*   s        abstract schema (built through the real DSL)                 *)
(*   tape     selectors fed to the draws (<<>>: real RNG, no prediction)   *)
(*   exc      "" or the exception type raised by fake()                    *)
(*   vok      the real validate(schema, value) reported no errors          *)
(*   rep / v  the generated value could be abstracted / Some(value)        *)
(***************************************************************************)
EXTENDS D42Findings, D42TraceBase

SigOf(e) ==
  LET subs == SubSchemas(e.s) IN
  IF e.exc = "ValueError" /\ \E y \in subs : SigDefaultBound(y) THEN "gen.default_bound_beyond_declared"
  ELSE IF e.exc = "ValueError" /\ \E y \in subs : SigFloatGrid(y) /\ IsSome(y.min) /\ IsSome(y.max)
       THEN "gen.float.empty_precision_grid"
  ELSE IF e.exc = "IndexError" /\ \E y \in subs : SigEmptyAlphabet(y) THEN "gen.str.empty_alphabet"
  ELSE IF e.exc = "IndexError" /\ \E y \in subs : SigEmptyNegClass(y) THEN "regex.negated_class_excludes_whole_alphabet"
  ELSE IF e.exc = "" /\ \E y \in subs : SigContradictoryStr(y) THEN "gen.str.contradictory_contains_inside_container"
  ELSE IF e.exc = "" /\ \E y \in subs : SigListEllLen(y) THEN "gen.list.ellipsis_len_ignored"
  ELSE IF e.exc = "" /\ \E y \in subs : SigFloatGrid(y) THEN "gen.float.precision_grid_truncates"
  ELSE ""

Verdict(e) ==
  IF ~Sat(e.s) THEN "SKIP:not_shown_satisfiable"
  ELSE IF e.exc # "" THEN "FAIL:generator_raised:" \o SigOf(e)
  ELSE IF ~e.vok THEN "FAIL:generated_value_rejected_by_validate:" \o SigOf(e)
  ELSE IF e.rep /\ ~Conforms(e.s, Get(e.v)) THEN "FAIL:generated_value_nonconforming_by_spec:" \o SigOf(e)
  ELSE "OK"

\* sre turns an alternation of single characters / classes into one class (as in Trace_C09)
RECURSIVE RSubC01(_)
RSubC01(x) == {x} \cup CASE x.r \in {"group", "rep", "uns"} -> RSubC01(x.body)
                         [] x.r = "alt" -> UNION {RSubC01(x.alts[i]) : i \in DOMAIN x.alts}
                         [] x.r = "seq" -> UNION {RSubC01(x.parts[i]) : i \in DOMAIN x.parts}
                         [] OTHER -> {}
\* (... also through a non-capturing group; and a class of one literal becomes that literal: no draw)
CharLike(y) == y.r = "lit" \/ (y.r = "class" /\ ~y.neg)
                \/ (y.r = "group" /\ y.kind = "noncap" /\ (y.body.r = "lit" \/ (y.body.r = "class" /\ ~y.body.neg)))
MergeableAltC01(x) == \/ x.r = "alt" /\ \A i \in DOMAIN x.alts : CharLike(x.alts[i])
                      \/ x.r = "class" /\ ~x.neg /\ Len(x.items) = 1 /\ x.items[1].ci = "lit"

Drift(e) ==
  /\ e.tape # <<>> /\ \A j \in DOMAIN e.tape : e.tape[j] \in Selectors
  /\ ~\E y \in SubSchemas(e.s) : y.t = "str" /\ IsSome(y.pattern) /\ Get(y.pattern).k = "pat"
                                   /\ \E z \in RSubC01(Get(y.pattern).rx) : MergeableAltC01(z)
  /\ ~\E y \in SubSchemas(e.s) : y.t = "str" /\ IsSome(y.pattern) /\ Get(y.pattern).k = "pat"
                                   /\ RHasNeg(Get(y.pattern).rx)
  /\ LET m == Gen(e.s, e.tape, 0) IN
     IF ~m.ok THEN m.exc # "UNMODELLED" /\ m.exc # e.exc
     ELSE e.exc # "" \/ (e.rep /\ m.v # Get(e.v) /\
                         ~(\E y \in SubSchemas(e.s) : y.t \in {"uuid4", "datetime", "date"} /\ IsNone(y.value)))

TraceNext == TraceStep(Verdict, Drift)

=============================================================================
