"""helpers shared by the property drivers (real-code side)"""
from . import absmap as am


def real_fixed_value(schema):
    """(has_fixed, python value): the value a schema is pinned to, read from the real object"""
    from niltype import Nil
    from d42.declaration import types as T
    if isinstance(schema, T.NoneSchema):
        return True, None
    if isinstance(schema, T.ListSchema):
        el = schema.props.get("elements")
        if el is Nil or schema.props.get("type") is not Nil:
            return False, None
        out = []
        for e in el:
            if e is ...:
                return False, None
            has, v = real_fixed_value(e)
            if not has:
                return False, None
            out.append(v)
        return True, out
    if isinstance(schema, (T.DictSchema, T.AnySchema, T.GenericTypeAliasSchema)):
        return False, None
    v = schema.props.get("value")
    if v is Nil:
        return False, None
    return True, v


def try_abs(fn, x):
    """(rep, [abstract]) -- rep False when x is outside the abstract domain"""
    try:
        return True, [fn(x)]
    except am.Unrepresentable:
        return False, []


def safe_repr(x):
    try:
        return repr(x)
    except Exception as e:  # a repr that raises is reported by the caller where it matters
        return "<repr raised %s>" % type(e).__name__


TYPES_ALL = ["int", "float", "str", "bool", "bytes", "uuid4", "datetime", "date", "list", "dict", "any"]


def tla_set(strs):
    return "{" + ", ".join('"%s"' % s for s in strs) + "}"
