"""helpers shared by the property drivers (real-code side)"""
from . import absmap as am


def real_fixed_value(schema):
    """(has_fixed, python value): the value a schema is pinned to, read from the real object"""
    from niltype import Nil
    from d42.declaration import types as T
    if isinstance(schema, T.NoneSchema):
        return True, None
    if isinstance(schema, T.ListSchema):
        el = schema.props.get("elements")
        if el is Nil or schema.props.get("type") is not Nil:
            return False, None
        out = []
        for e in el:
            if e is ...:
                return False, None
            has, v = real_fixed_value(e)
            if not has:
                return False, None
            out.append(v)
        return True, out
    if isinstance(schema, (T.DictSchema, T.AnySchema, T.GenericTypeAliasSchema)):
        return False, None
    v = schema.props.get("value")
    if v is Nil:
        return False, None
    return True, v


def accepts(schema, value):
    """Does the schema accept the value?  The answer of validate().  `schema == value`,
    `schema != value` and validate_or_fail() are public entry points to the same validator; when
    one of them answers differently, the *deviating* answer is returned, so that the deviation
    surfaces in whatever clause consumes the observation (on a tree where the entry points agree
    this is exactly validate())."""
    import d42
    try:
        ok = not d42.validate(schema, value).has_errors()
    except Exception:
        return False
    from d42.declaration import Schema
    if isinstance(value, Schema):
        return ok                        # == between two schemas is structural equality
    try:
        if bool(schema == value) != ok or bool(schema != value) == ok:
            return not ok
    except Exception:
        pass
    try:
        d42.validate_or_fail(schema, value)
        vof = True
    except d42.ValidationException:
        vof = False
    except Exception:
        vof = ok                         # rendering the message failed: no information (C08's subject)
    return ok if vof == ok else not ok


def exercise(schema):
    """every public, supposedly pure use of a schema: renderings of the schema and of its props,
    generation, validation, the combinators and helpers that return new schemas"""
    import d42
    from d42.utils import make_required
    for call in (lambda: repr(schema), lambda: repr(schema.props), lambda: str(schema.props),
                 lambda: d42.represent(schema), lambda: d42.fake(schema), lambda: d42.validate(schema, None),
                 lambda: schema == None, lambda: make_required(schema), lambda: make_required(schema, []),  # noqa: E711
                 lambda: schema + schema, lambda: schema | d42.schema.none, lambda: list(schema),
                 lambda: d42.substitute(schema, d42.fake(schema)), lambda: hash(schema.props)):
        try:
            call()
        except Exception:
            pass


def try_abs(fn, x):
    """(rep, [abstract]) -- rep False when x is outside the abstract domain"""
    try:
        return True, [fn(x)]
    except am.Unrepresentable:
        return False, []


def safe_repr(x):
    try:
        return repr(x)
    except Exception as e:  # a repr that raises is reported by the caller where it matters
        return "<repr raised %s>" % type(e).__name__


TYPES_ALL = ["int", "float", "str", "bool", "bytes", "uuid4", "datetime", "date", "list", "dict", "any"]


def tla_set(strs):
    return "{" + ", ".join('"%s"' % s for s in strs) + "}"
