"""helpers shared by the property drivers (real-code side)"""
from . import absmap as am


def real_fixed_value(schema):
    """(has_fixed, python value): the value a schema is pinned to, read from the real object"""
    from niltype import Nil
    from d42.declaration import types as T
    if isinstance(schema, T.NoneSchema):
        return True, None
    if isinstance(schema, T.ListSchema):
        el = schema.props.get("elements")
        if el is Nil or schema.props.get("type") is not Nil:
            return False, None
        out = []
        for e in el:
            if e is ...:
                return False, None
            has, v = real_fixed_value(e)
            if not has:
                return False, None
            out.append(v)
        return True, out
    if isinstance(schema, (T.DictSchema, T.AnySchema, T.GenericTypeAliasSchema)):
        return False, None
    v = schema.props.get("value")
    if v is Nil:
        return False, None
    return True, v


ENTRY_OBS = {}      # combination of answers -> {"count", "example"}


def accepts(schema, value):
    """Does the schema accept the value?  The answer of validate(): no errors.  has_errors(),
    `schema == value`, `schema != value` and validate_or_fail() are other public ways of asking the
    same question; every combination of answers seen is recorded and judged by
    spec/Trace_Entry.tla at the end of the run (core.Check.finish)."""
    import d42
    try:
        res = d42.validate(schema, value)
        no_errors = len(res.get_errors()) == 0
        has_errors = bool(res.has_errors())
    except Exception:
        return False
    from d42.declaration import Schema
    if isinstance(value, Schema):
        return no_errors                 # == between two schemas is structural equality
    try:
        eq = "true" if (schema == value) else "false"
    except Exception:
        eq = "raised"
    try:
        ne = "true" if (schema != value) else "false"
    except Exception:
        ne = "raised"
    try:
        d42.validate_or_fail(schema, value)
        vof = "true"
    except d42.ValidationException:
        vof = "exception"
    except Exception:
        vof = "other"                    # rendering the message failed: C08's subject
    key = (no_errors, has_errors, eq, ne, vof)
    slot = ENTRY_OBS.get(key)
    if slot is None:
        ENTRY_OBS[key] = {"count": 1, "example": {"schema": safe_repr(schema)[:300], "value": safe_repr(value)[:200]}}
    else:
        slot["count"] += 1
    return no_errors


def exercise(schema):
    """every public, supposedly pure use of a schema: renderings of the schema and of its props,
    generation, validation, the combinators and helpers that return new schemas"""
    import d42
    from d42.utils import make_required
    for call in (lambda: repr(schema), lambda: repr(schema.props), lambda: str(schema.props),
                 lambda: d42.represent(schema), lambda: d42.fake(schema), lambda: d42.validate(schema, None),
                 lambda: schema == None, lambda: make_required(schema), lambda: make_required(schema, []),  # noqa: E711
                 lambda: schema + schema, lambda: schema | d42.schema.none, lambda: list(schema),
                 lambda: d42.substitute(schema, d42.fake(schema)), lambda: hash(schema.props)):
        try:
            call()
        except Exception:
            pass


class _Alarm(BaseException):
    pass


def timed(fn, on_timeout, seconds=3.0):
    """fn() under a wall-clock alarm: a regular expression of the universe may make re.search (which
    the library's validator uses) backtrack for minutes; that is no observation about d42"""
    import signal

    def handler(signum, frame):
        raise _Alarm()
    old = signal.signal(signal.SIGALRM, handler)
    signal.setitimer(signal.ITIMER_REAL, seconds)
    try:
        return fn()
    except _Alarm:
        return on_timeout
    finally:
        signal.setitimer(signal.ITIMER_REAL, 0)
        signal.signal(signal.SIGALRM, old)


def try_abs(fn, x):
    """(rep, [abstract]) -- rep False when x is outside the abstract domain"""
    try:
        return True, [fn(x)]
    except am.Unrepresentable:
        return False, []


def safe_repr(x):
    try:
        return repr(x)
    except Exception as e:  # a repr that raises is reported by the caller where it matters
        return "<repr raised %s>" % type(e).__name__


TYPES_ALL = ["int", "float", "str", "bool", "bytes", "uuid4", "datetime", "date", "list", "dict", "any"]


def tla_set(strs):
    return "{" + ", ".join('"%s"' % s for s in strs) + "}"
