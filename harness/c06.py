"""C06  repr(schema) is DSL source that rebuilds an equal schema.

(A) spec/MC_Repr.tla: for every DSL-reachable scalar schema, the container universe and
results of + / make_required, the calls the printer model emits (spec/D42Represent.tla)
fold back, through the DSL model, to the schema they were printed from.
(B) every schema is built on the real DSL; repr / represent are taken, the text is evaluated
with {schema, optional, UUID, datetime}, compared with ==, re-printed -- and evaluated a
second time with a recording facade to obtain the expression tree the text denotes.
(C) spec/Trace_Repr.tla decides the recorded flags and evaluates the tree under the spec's DSL.
"""
import datetime
import uuid

from . import absmap as am
from . import core, valgen
from .common import safe_repr


class Expr:
    """recording stand-in for a schema under construction"""

    def __init__(self, t, calls=()):
        self._t = t
        self._calls = list(calls)

    def __call__(self, *args):
        return Expr(self._t, self._calls + [("value", args)])

    def __getattr__(self, name):
        if name.startswith("_"):
            raise AttributeError(name)

        def method(*args):
            return Expr(self._t, self._calls + [(name, args)])
        return method


class Facade:
    def __getattr__(self, name):
        return Expr(name)


class Opt:
    def __init__(self, key):
        self.key = key

    def __hash__(self):
        return hash(("opt", self.key))

    def __eq__(self, other):
        return isinstance(other, Opt) and other.key == self.key


def a_arg(x):
    if isinstance(x, Expr):
        return {"k": "expr", "t": x._t, "calls": [{"m": m, "a": [a_arg(a) for a in args]} for m, args in x._calls]}
    if isinstance(x, Opt):
        return {"k": "optional", "key": am.a_value(x.key)}
    if type(x) is list:
        return {"k": "list", "items": [a_arg(i) for i in x]}
    if type(x) is dict:
        return {"k": "dict", "pairs": [{"key": a_arg(k) if isinstance(k, Opt) else am.a_value(k), "val": a_arg(v)}
                                       for k, v in x.items()]}
    if type(x) is str:
        # a pattern argument is told apart by the method in a_call
        return am.a_value(x)
    return am.a_value(x)


def a_expr(x):
    e = a_arg(x)
    fix_patterns(e)
    return e


def fix_patterns(e):
    if isinstance(e, dict):
        if e.get("k") == "expr":
            for c in e["calls"]:
                if c["m"] == "regex" and c["a"] and c["a"][0].get("k") == "str":
                    from . import rxtext
                    c["a"][0] = rxtext.pattern_arg(am.g_text(c["a"][0]["s"]))
                for a in c["a"]:
                    fix_patterns(a)
        elif e.get("k") == "list":
            for i in e["items"]:
                fix_patterns(i)
        elif e.get("k") == "dict":
            for p in e["pairs"]:
                fix_patterns(p["val"])


def observe(real):
    import d42
    ev = {"stable": False, "eval_exc": "", "eq": False, "same_repr": False, "parsed": False, "denoted": [],
          "expr": {"k": "expr", "t": "none", "calls": []}}
    try:
        text = repr(real)
        ev["text"] = text[:400]
        ev["stable"] = (repr(real) == text) and (d42.represent(real) == text)
    except Exception as e:
        ev["text"] = "<repr raised %s>" % type(e).__name__
        ev["eval_exc"] = "repr raised " + type(e).__name__
        return ev
    env = {"schema": d42.schema, "optional": d42.optional, "UUID": uuid.UUID, "datetime": datetime}
    try:
        rebuilt = eval(text, dict(env))
    except BaseException as e:  # noqa
        ev["eval_exc"] = type(e).__name__
        rebuilt = None
    if rebuilt is not None:
        try:
            ev["eq"] = bool(rebuilt == real) and bool(real == rebuilt) and not bool(rebuilt != real)
            ev["same_repr"] = repr(rebuilt) == text
        except Exception:
            pass
        try:
            ev["denoted"] = [am.a_schema(rebuilt)]
        except Exception:
            ev["denoted"] = []
    try:
        rec = eval(text, {"schema": Facade(), "optional": Opt, "UUID": uuid.UUID, "datetime": datetime})
        ev["expr"] = a_expr(rec)
        ev["parsed"] = True
    except Exception:
        ev["parsed"] = False
    return ev


def _has_alias_or_custom(s):
    if s.get("t") in ("alias", "custom"):
        return True
    if s.get("t") == "list":
        subs = list(s["type"]) + [x for el in s["elems"] for x in el if x.get("k") != "ellipsis"]
    elif s.get("t") == "dict":
        subs = [p["val"] for ks in s["keys"] for p in ks if p["val"].get("k") != "ellipsis"]
    elif s.get("t") == "any":
        subs = [x for ts in s["types"] for x in ts]
    else:
        subs = []
    return any(_has_alias_or_custom(x) for x in subs)


def describe(e):
    return {"schema": e["s"], "text": e.get("text"), "stable": e["stable"], "eval_exc": e["eval_exc"],
            "eq": e["eq"], "same_repr": e["same_repr"], "parsed": e["parsed"]}


def texts_in_other_process(universe, hashseed):
    import json
    import os
    import subprocess
    import sys
    from . import tlc
    wd = tlc.workdir("C06_other_process")
    jobs, out = os.path.join(wd, "jobs.json"), os.path.join(wd, "out.json")
    json.dump(universe, open(jobs, "w"))
    env = dict(os.environ, PYTHONHASHSEED=hashseed, PYTHONDONTWRITEBYTECODE="1")
    p = subprocess.run([sys.executable, os.path.join(os.path.dirname(__file__), "reprworker.py"), jobs, out],
                       env=env, stdout=subprocess.PIPE, stderr=subprocess.STDOUT, text=True, timeout=1800)
    if p.returncode != 0 or not os.path.exists(out):
        raise core.MachineryFailure("repr worker failed:\n" + p.stdout[-1500:])
    return json.load(open(out))


def main(chk):
    core.setup_repo_path()
    quick = chk.tier == "quick"
    depth = 2 if quick else 3
    cfg = {"constants": {"Depth": str(depth)}, "invariants": ["C06_ReprRoundTrips"]}
    res = chk.model_check("MC_Repr", cfg, dump=True)
    cache = valgen.SchemaCache(chk)
    events = []
    universe = [st["s"] for st in core.load_dump(res, only='"printed"') if st["phase"] == "printed"]
    # "deterministic": the same declarations print the same text in another interpreter process
    # (another PYTHONHASHSEED); the schemas are rebuilt there in the same order
    elsewhere = texts_in_other_process(universe, "4242")
    am.enable_routes(True)            # restart the route rotation: same order as in the other process
    for n, s in enumerate(universe):
        real, why = cache.get(s)
        if real is None:
            continue
        ev = observe(real)
        ev["raw"] = False
        if elsewhere is not None and ev.get("text") is not None and ev["stable"]:
            ev["stable"] = safe_repr(real) == elsewhere[n]
        ev.update({"id": len(events) + 1, "s": s})
        events.append(ev)
        chk.count("type_" + s["t"])
        chk.count("parsed" if ev["parsed"] else "not_parsed")
    # random declarations nested 3-4 levels (the real `random` drives the shapes; aliases and custom
    # types are outside the property): what the small universe cannot hold -- long key lists, lists of
    # dicts of unions, random regex programs inside containers
    from . import deep
    ndeep = 15000 if quick else 80000
    made = 0
    for i in range(ndeep * 4):
        if made >= ndeep:
            break
        b = deep.build(chk.rng, 3 + (i % 4 == 0) + (0 if quick else (i % 8 == 0)))
        if b is None or _has_alias_or_custom(b[0]):
            continue
        s, real = b
        ev = observe(real)
        ev.update({"id": len(events) + 1, "s": s, "raw": False})
        events.append(ev)
        made += 1
        chk.count("deep_random_schemas")
        chk.count("parsed" if ev["parsed"] else "not_parsed")
    # real binary floats (the model's numbers are exact): the printed text must still evaluate to an
    # equal schema that prints the same; the abstract schema is a stand-in
    dummy = {"t": "float", "value": [], "min": [], "max": [], "precision": []}
    for text, real in deep.real_float_schemas():
        ev = observe(real)
        ev.update({"id": len(events) + 1, "s": dummy, "parsed": False, "expr": {"k": "expr", "t": "none", "calls": []}, "srepr": text,
                   "raw": True})
        events.append(ev)
        chk.count("real_float_schemas")
    chk.require(len(events) >= 1500, "fewer than 1500 schemas printed (%d)" % len(events))
    chk.require(chk.counts.get("parsed", 0) >= 0.95 * len(events), "too many texts could not be re-read")
    slim = [{k: e[k] for k in ("id", "s", "stable", "eval_exc", "eq", "same_repr", "parsed", "expr", "denoted", "raw")}
            for e in events]
    verdicts = chk.validate_events("Trace_Repr", slim)
    chk.absorb(events, verdicts, describe)
    for e in events[:: max(1, len(events) // 5)][:5]:
        chk.sample(describe(e))
    chk.assumptions = ["schemas without type aliases and custom types (as the property states)",
                       "universe of spec/MC_Repr.tla: scalars reachable by <= %d DSL calls, container universe "
                       "(nesting <= 2 plus deeper extras), keys of str/int/None/bool/bytes/float kinds" % depth]
    return chk.finish(rule="every schema of the machine's universe; non-trivial = a schema printed, evaluated "
                           "and re-read on the real code",
                      extra={"constants": {"Depth": depth}})
