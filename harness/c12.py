"""C12: see harness/subcommon.py (substitution machine spec/MC_Sub.tla, trace spec/Trace_Sub.tla)."""
from . import subcommon


def main(chk):
    return subcommon.run(chk, "C12")
