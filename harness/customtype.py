"""A user-defined CustomSchema that forwards every hook to a wrapped built-in schema
(the `custom(inner)` node of the specification).  Registered once through register_type."""
_CLS = None


def _make():
    global _CLS
    if _CLS is not None:
        return _CLS
    from niltype import Nil
    from d42.custom_type import CustomSchema, Props, register_type

    class FwdProps(Props):
        @property
        def inner(self):
            return self.get("inner")

    class FwdSchema(CustomSchema[FwdProps]):
        def __call__(self, inner):
            return self.__class__(self.props.update(inner=inner))

        def __represent__(self, visitor, *, indent=0, **kwargs):
            return self.props.inner.__accept__(visitor, indent=indent, **kwargs)

        def __generate__(self, visitor, **kwargs):
            return self.props.inner.__accept__(visitor, **kwargs)

        def __validate__(self, visitor, *, value=Nil, path=Nil, **kwargs):
            return self.props.inner.__accept__(visitor, value=value, path=path, **kwargs)

        def __substitute__(self, visitor, *, value=Nil, **kwargs):
            inner = self.props.inner.__accept__(visitor, value=value, **kwargs)
            return self.__class__(self.props.update(inner=inner))

    register_type("verif_fwd", FwdSchema)
    _CLS = FwdSchema
    return _CLS


_FACTORY_CLASSES = []
_BY_INNER = {}
_COUNT = [0]


def _factory(inner):
    """a parametrised custom type: one class per wrapped schema, produced by a class factory (all
    of them are called `Fwd`), the wrapped schema being the *default* of the class's own Props type"""
    from niltype import Nil
    from d42.custom_type import CustomSchema, Props

    class FwdDefaultProps(Props):
        @property
        def inner(self):
            return self.get("inner", inner)

    class Fwd(CustomSchema[FwdDefaultProps]):
        def __represent__(self, visitor, *, indent=0, **kwargs):
            return self.props.inner.__accept__(visitor, indent=indent, **kwargs)

        def __generate__(self, visitor, **kwargs):
            return self.props.inner.__accept__(visitor, **kwargs)

        def __validate__(self, visitor, *, value=Nil, path=Nil, **kwargs):
            return self.props.inner.__accept__(visitor, value=value, path=path, **kwargs)

        def __substitute__(self, visitor, *, value=Nil, **kwargs):
            res = self.props.inner.__accept__(visitor, value=value, **kwargs)
            return self.__class__(self.props.update(inner=res))

    _FACTORY_CLASSES.append(Fwd)
    return Fwd


def wrap(inner):
    """two ways of writing the forwarding type, taken in turn: one registered class whose props
    hold the wrapped schema, or a class made by a factory for this very schema"""
    import d42
    _make()
    # the same declaration is always written the same way (two builds of it must be equal, and a
    # class is a different type from every other class): the way is chosen by the wrapped schema
    # (keyed by structure, not by repr: a forwarding type prints like what it wraps)
    import json
    from . import absmap
    try:
        key = json.dumps(absmap.a_schema(inner), sort_keys=True, default=str)
    except absmap.Unrepresentable:
        return d42.schema.verif_fwd(inner)
    if sum(key.encode("utf-8", "replace")) % 2:
        return d42.schema.verif_fwd(inner)
    cls = _BY_INNER.get(key)
    if cls is None:
        cls = _BY_INNER[key] = _factory(inner)
    return cls()


def unwrap(real):
    cls = _make()
    if isinstance(real, cls) or isinstance(real, tuple(_FACTORY_CLASSES)):
        return real.props.inner
    return None
