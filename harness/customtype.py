"""A user-defined CustomSchema that forwards every hook to a wrapped built-in schema
(the `custom(inner)` node of the specification).  Registered once through register_type."""
_CLS = None


def _make():
    global _CLS
    if _CLS is not None:
        return _CLS
    from niltype import Nil
    from d42.custom_type import CustomSchema, Props, register_type

    class FwdProps(Props):
        @property
        def inner(self):
            return self.get("inner")

    class FwdSchema(CustomSchema[FwdProps]):
        def __call__(self, inner):
            return self.__class__(self.props.update(inner=inner))

        def __represent__(self, visitor, *, indent=0, **kwargs):
            return self.props.inner.__accept__(visitor, indent=indent, **kwargs)

        def __generate__(self, visitor, **kwargs):
            return self.props.inner.__accept__(visitor, **kwargs)

        def __validate__(self, visitor, *, value=Nil, path=Nil, **kwargs):
            return self.props.inner.__accept__(visitor, value=value, path=path, **kwargs)

        def __substitute__(self, visitor, *, value=Nil, **kwargs):
            inner = self.props.inner.__accept__(visitor, value=value, **kwargs)
            return self.__class__(self.props.update(inner=inner))

    register_type("verif_fwd", FwdSchema)
    _CLS = FwdSchema
    return _CLS


def wrap(inner):
    import d42
    _make()
    return d42.schema.verif_fwd(inner)


def unwrap(real):
    cls = _make()
    if isinstance(real, cls):
        return real.props.inner
    return None
