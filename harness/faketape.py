"""A scripted replacement for the `random` module used inside d42.generation._random.

The tape is the cyclic sequence of selectors of spec/D42Regex.tla (lo, lo1, hi1, hi): the n-th
draw of a run resolves to a boundary outcome of the primitive's contract.  Installed from the
outside (no source hook): d42.generation._random.random is rebound for the duration of a run.
"""
import contextlib
import operator

from . import absmap as am


class HarnessGap(BaseException):
    """the code under test used a facility the harness does not script: a machinery failure (exit 2),
    never an observation about the code (BaseException: no `except Exception` of a driver records it)"""


class TapeModule:
    def __getattr__(self, name):
        raise HarnessGap("d42.generation._random used random.%s, which the scripted module does not provide" % name)

    def __init__(self, tape):
        self.tape = list(tape)
        self.pos = 0
        self.log = []

    def _sel(self):
        s = self.tape[self.pos % len(self.tape)]
        self.pos += 1
        return s

    # -- the functions Random uses
    def seed(self, *a, **k):
        self.log.append(("seed", a))

    def randint(self, a, b):
        sel = self._sel()
        a, b = operator.index(a), operator.index(b)    # as random.randrange does
        if a > b:
            raise ValueError("empty range for randrange() (%d, %d, %d)" % (a, b + 1, b + 1 - a))
        if sel.startswith("i:"):                       # explicit outcome: the k-th value of the range
            r = a + (int(sel[2:]) - 1) % (b - a + 1)
        else:
            r = {"lo": a, "hi": b, "lo1": min(a + 1, b), "hi1": max(b - 1, a)}[sel]
        self.log.append(("randint", a, b, r))
        return r

    def choice(self, seq):
        sel = self._sel()
        n = len(seq)
        if n == 0:
            raise IndexError("Cannot choose from an empty sequence")
        if sel.startswith("i:"):
            i = (int(sel[2:]) - 1) % n + 1
        else:
            i = {"lo": 1, "hi": n, "lo1": min(2, n), "hi1": max(n - 1, 1)}[sel]
        self.log.append(("choice", n, i))
        return seq[i - 1]

    def uniform(self, a, b):
        sel = self._sel()
        r = a if (sel in ("lo", "lo1") or (sel.startswith("i:") and int(sel[2:]) % 2)) else b
        if sel in ("lo1", "hi1"):
            try:
                qa, qb = am.a_float(a), am.a_float(b)
                if qa["sp"] == "fin" and qb["sp"] == "fin" and \
                        qa["q"] not in am.FLOAT_LANDMARKS and qb["q"] not in am.FLOAT_LANDMARKS:
                    r = ((qa["q"] + qb["q"]) // 2) / 100.0
            except am.Unrepresentable:
                pass
        self.log.append(("uniform", a, b, r))
        return r

    def shuffle(self, x):
        self.log.append(("shuffle", len(x)))

    # -- functions Random does not use today; scripted so that a library that starts to use them is
    # still observed (boundary outcomes of each contract) instead of stopping the harness
    def randrange(self, start, stop=None, step=1):
        if stop is None:
            start, stop = 0, start
        start, stop, step = operator.index(start), operator.index(stop), operator.index(step)
        n = len(range(start, stop, step))
        if n == 0:
            raise ValueError("empty range for randrange()")
        return start + step * (self.randint(0, n - 1))

    def random(self):
        sel = self._sel()
        r = {"lo": 0.0, "hi": 1.0 - 2.0 ** -53, "lo1": 0.25, "hi1": 0.75}.get(sel, 0.5)
        self.log.append(("random", r))
        return r

    def getrandbits(self, k):
        return self.randint(0, (1 << k) - 1) if k > 0 else 0

    def randbytes(self, n):
        return bytes(self.randint(0, 255) for _ in range(n))

    def sample(self, population, k):
        pool = list(population)
        if not 0 <= k <= len(pool):
            raise ValueError("Sample larger than population or is negative")
        return [pool.pop(self.randint(0, len(pool) - 1)) for _ in range(k)]

    def choices(self, population, weights=None, *, cum_weights=None, k=1):
        return [self.choice(population) for _ in range(k)]


@contextlib.contextmanager
def installed(tape):
    import sys
    import d42.generation  # noqa
    R = sys.modules["d42.generation._random"]
    cur = R.__dict__.get("random")
    if cur is None or not (isinstance(cur, TapeModule) or getattr(cur, "__name__", "") == "random"):
        raise HarnessGap("d42.generation._random no longer binds the random module under the name `random`")
    real = R.random
    fake = TapeModule(tape)
    R.random = fake
    # a generator object of its own (random.Random()) kept by the module or by the Random class is
    # scripted as well: the tape offers the same methods
    import random as _random
    swapped = []
    for holder in [R] + [c for c in R.__dict__.values() if isinstance(c, type)]:
        for name, obj in list(vars(holder).items()):
            if isinstance(obj, _random.Random):
                swapped.append((holder, name, obj))
                setattr(holder, name, fake)
    try:
        yield fake
    finally:
        R.random = real
        for holder, name, obj in swapped:
            setattr(holder, name, obj)
