"""C18  rollout is the inverse of flattening dotted keys.

(A) spec/MC_Rollout.tla: every tree (nesting <= Depth, <= MaxLeaves leaves, labels incl. the
empty one, optional on any leaf, optional top-level `...`) and every order of its flat keys,
consumed by the machine that mirrors rollout's loop; invariant: result = tree.
(B) each (tree, order) is replayed on the real rollout() with every separator; labels are
concretised to strings containing the *other* separators.
(C) spec/Trace_C18.tla compares the abstracted real result with the tree and checks the
recorded flags (leaf identity, `...` entry, input untouched, identity on nested input).
"""
import copy

from . import core

SEPARATORS = [".", "->", "__", "/"]


STYLE = [0]


def label_text(lab, sep):
    """label 0 is the empty string.  Three ways of spelling the others, taken in turn:
    0: the even labels contain every separator except the one in use;
    1: label 2 is spelt like a two-level flat key of *another* separator ("L1.L1" under "/"), so the
       same key text is met under different separators within one process;
    2: text that is not in Unicode normal form (a combining accent, the Angstrom sign);
    3: keys spelt like the placeholder: the one-character ellipsis, three dots"""
    if lab == 0:
        return ""
    if STYLE[0] == 1:
        other = "." if sep != "." else "/"
        return "L1" if lab == 1 else "L1%sL1" % other
    if STYLE[0] == 2:
        return "cafe\u0301%d" % lab if lab == 1 else "\u212b%d" % lab
    if STYLE[0] == 3:
        # text that looks like the `...` placeholder without being it
        return "\u2026" if lab == 1 else ("..." if "." not in sep else "\u2026\u2026")
    others = "".join("<%s>" % s for s in SEPARATORS if s != sep and sep not in s and s not in sep)
    return "L%d%s" % (lab, others if lab % 2 == 0 else "")


class Payload:
    def __init__(self, ident):
        self.ident = ident

    def __repr__(self):
        return "Payload(%r)" % (self.ident,)


def nested_dict(tree, sep, payloads):
    import d42
    out = {}
    for e in tree:
        key = label_text(e["lab"], sep)
        if e["sub"]["leaf"]:
            ident = repr(e["sub"]["pay"])
            p = payloads.setdefault(ident, Payload(ident))
            out[d42.optional(key) if e["opt"] else key] = p
        else:
            out[key] = nested_dict(e["sub"]["sub"], sep, payloads)
    return out


def abstract(result, sep, inv_labels, payloads_by_obj):
    """real nested dict -> tree encoding (list of entries); None when something is off"""
    import d42
    out = []
    for k, v in result.items():
        if k is ...:
            continue
        opt = isinstance(k, d42.optional)
        key = k.key if opt else k
        if key not in inv_labels:
            return None
        if isinstance(v, dict):
            sub = abstract(v, sep, inv_labels, payloads_by_obj)
            if sub is None:
                return None
            out.append({"lab": inv_labels[key], "opt": opt, "sub": {"leaf": False, "sub": sub}})
        else:
            pay = payloads_by_obj.get(id(v))
            if pay is None:
                return None
            out.append({"lab": inv_labels[key], "opt": opt, "sub": {"leaf": True, "pay": pay}})
    return out


def leaves(d):
    for v in d.values():
        if isinstance(v, dict):
            for x in leaves(v):
                yield x
        elif v is not ...:
            yield v


def run_case(tree, relaxed, order, sep, labels, rng):
    import d42
    from d42.utils import rollout
    payloads = {}
    ev0 = {"exc": "", "res": [], "relaxed": relaxed, "relaxed_kept": False, "leaves_identical": False,
           "input_unchanged": False, "identity_ok": False, "flat_keys": []}
    try:
        expected = nested_dict(tree, sep, payloads)
        flat = {}
        entries = []
        for f in order:
            key = sep.join(label_text(l, sep) for l in f["path"])
            ident = repr(f["pay"])
            p = payloads.setdefault(ident, Payload(ident))
            entries.append((d42.optional(key) if f["opt"] else key, p))
    except Exception as e:          # writing the mapping down already failed (optional(<key>) refused)
        ev0["exc"] = type(e).__name__
        return ev0
    pos = rng.randrange(len(entries) + 1) if relaxed else None
    for i, (k, p) in enumerate(entries):
        if pos == i:
            flat[...] = ...
        flat[k] = p
    if relaxed and pos == len(entries):
        flat[...] = ...
    before = dict(flat)
    ev = {"exc": "", "res": [], "relaxed": relaxed, "relaxed_kept": False, "leaves_identical": False,
          "input_unchanged": False, "identity_ok": False, "flat_keys": [repr(k) for k in flat]}
    kwargs = {} if sep == "." and rng.random() < 0.5 else {"separator": sep}
    try:
        res = rollout(flat, **kwargs)
    except BaseException as e:  # noqa
        ev["exc"] = type(e).__name__
        return ev
    inv = {label_text(l, sep): l for l in labels}
    by_obj = {id(p): eval(ident) for ident, p in payloads.items()}
    a = abstract(res, sep, inv, by_obj)
    ev["res"] = a if a is not None else [{"lab": -1, "opt": False, "sub": {"leaf": True, "pay": []}}]
    ev["relaxed_kept"] = (... in res) and res[...] is ...
    ev["leaves_identical"] = sorted(id(x) for x in leaves(res)) == sorted(id(p) for p in payloads.values())
    ev["input_unchanged"] = list(flat.items()) == list(before.items()) and \
        all(flat[k] is before[k] for k in flat)
    nested_in = copy.copy(expected)
    if relaxed:
        nested_in[...] = ...
    try:
        ident_res = rollout(nested_in, **kwargs)
        ev["identity_ok"] = ident_res == nested_in
    except BaseException:  # noqa
        ev["identity_ok"] = False
    return ev


def describe(e):
    return {"separator": e["sep"], "flat_keys_in_order": e.get("flat_keys"), "tree": e["tree"], "exc": e["exc"],
            "result": e["res"], "leaves_identical": e["leaves_identical"], "input_unchanged": e["input_unchanged"],
            "identity_ok": e["identity_ok"], "relaxed": e["relaxed"], "relaxed_kept": e["relaxed_kept"]}


def main(chk):
    core.setup_repo_path()
    quick = chk.tier == "quick"
    labels = [0, 1, 2]
    configs = [(1, 3), (2, 2)] if quick else [(1, 4), (2, 3)]      # (Depth, MaxLeaves): wide, deep
    nseps = 2 if quick else 4
    events = []
    for depth, maxleaves in configs:
        cfg = {"constants": {"Labels": "{%s}" % ", ".join(map(str, labels)), "Depth": str(depth),
                             "MaxLeaves": str(maxleaves)},
               "invariants": ["C18_RolloutInvertsFlatten", "C18_NoCollision"], "view": "View"}
        res = chk.model_check("MC_Rollout", cfg, name="C18_MC_Rollout_%d_%d" % (depth, maxleaves), dump=True,
                              timeout=3000)
        keep = 1.0 if quick else (0.5 if depth == 1 else 0.1)
        for st in core.load_dump(res, only="todo = {}"):
            if not st["result"] or (keep < 1.0 and chk.rng.random() > keep):
                continue
            seps = [SEPARATORS[0]] + chk.rng.sample(SEPARATORS[1:], nseps - 1)
            for sep in seps:
                STYLE[0] = (len(events) // 2) % 4
                ev = run_case(st["tree"], bool(st["relaxed"]), st["order"], sep, labels, chk.rng)
                ev.update({"id": len(events) + 1, "tree": st["tree"], "order": st["order"], "sep": sep})
                events.append(ev)
                chk.count("sep_" + sep)
            chk.count("leaves_%d" % len(st["order"]))
    depth, maxleaves = configs[-1]
    chk.require(len(events) >= 3000, "fewer than 3000 rollout calls (%d)" % len(events))
    slim = [{k: e[k] for k in ("id", "tree", "order", "exc", "res", "relaxed", "relaxed_kept", "leaves_identical",
                               "input_unchanged", "identity_ok")} for e in events]
    verdicts = chk.validate_events("Trace_C18", slim,
                                   extra_constants={"Labels": "{%s}" % ", ".join(map(str, labels))})
    chk.absorb(events, verdicts, describe)
    for e in events[:: max(1, len(events) // 4)][:4]:
        chk.sample(describe(e))
    chk.assumptions = ["trees of spec/MC_Rollout.tla: nesting <= %d, <= %d leaves, at most two entries per level, "
                       "labels %s (0 = empty string)" % (depth + 1, maxleaves, labels),
                       "leaf payloads are opaque objects (a dict payload would itself be rolled out)"]
    return chk.finish(rule="(tree, order of flat keys, separator) triples; non-trivial = a triple replayed on the real "
                           "rollout()",
                      extra={"constants": {"Labels": labels, "Depth": depth, "MaxLeaves": maxleaves,
                                           "separators_per_case": nseps}})
