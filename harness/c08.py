"""C08  Validation is total: any Python value yields a result, and failing is reporting.

Same machine as C02 with the hostile-value zoo as replacement set (alone, injected at every
position of a conforming value, unusual dict keys added); spec/Trace_Val.tla (Prop = "C08")
checks that validate() returned, every message is non-empty, validate_or_fail returns True
exactly without errors and otherwise raises ValidationException with one line per error."""
from . import valcommon


def main(chk):
    return valcommon.run(chk, "C08")
