"""C10  A declaration either fails cleanly or yields a self-consistent schema.

(A) TLC explores the DSL machine spec/MC_C10.tla (all call chains up to Depth over valid,
boundary, contradictory and wrongly-typed arguments) and checks C10 on the operational model.
(B) every explored transition (receiver chain, call) is replayed on the real DSL.
(C) the recorded events are validated by spec/Trace_C10.tla (property-level clauses) and
compared with the model's prediction (drift).
"""
from . import absmap as am
from . import core
from .common import real_fixed_value, try_abs, safe_repr, TYPES_ALL, tla_set


def run_case(chain_prefix, call, t):
    """replay on the real DSL; returns the event fields"""
    import d42
    try:
        recv = am.g_chain(t, chain_prefix)
    except Exception:           # the real DSL refuses a prefix the model accepts: that refusal is
        return None             # itself recorded as its own transition; nothing to replay here
    before_repr = safe_repr(recv)
    rep_r, recv_abs = try_abs(am.a_schema, recv)
    exc = ""
    result = None
    try:
        result = am.g_call(recv, call)
    except BaseException as e:  # noqa: the exception type is the observation
        exc = type(e).__name__
    after_repr = safe_repr(recv)
    rep_r2, recv_abs2 = try_abs(am.a_schema, recv)
    ev = {"exc": exc, "unchanged": before_repr == after_repr and recv_abs == recv_abs2,
          "rep": False, "result": [], "hasfixed": False, "fixed_ok": True, "fixed": [],
          "recv_real": recv_abs, "usable": True}
    if exc == "":
        # "or returns a schema": something that can at least be printed and validated against
        try:
            repr(result)
            d42.validate(result, None)
            if not isinstance(result, am._schema_base()):
                ev["usable"] = False
        except Exception:
            ev["usable"] = False
        rep, res_abs = try_abs(am.a_schema, result)
        ev["rep"] = rep and rep_r
        ev["result"] = res_abs if ev["rep"] else []
        has, val = real_fixed_value(result)
        ev["hasfixed"] = has
        if has:
            try:
                ev["fixed_ok"] = not d42.validate(result, val).has_errors()
            except Exception:
                ev["fixed_ok"] = False
            repv, fv = try_abs(am.a_value, val)
            ev["fixed"] = fv if repv else []
    else:
        ev["rep"] = rep_r
    return ev


def describe(e):
    return {"type": e["recv"]["t"], "chain": e["chain"], "call": e["call"], "exc": e["exc"],
            "unchanged": e["unchanged"], "result": e["result"], "hasfixed": e["hasfixed"],
            "fixed_ok": e["fixed_ok"]}


def main(chk):
    core.setup_repo_path()
    depth = 4 if chk.tier == "quick" else 5
    cfg = {"constants": {"Depth": str(depth), "Types": tla_set(TYPES_ALL)},
           "invariants": ["OnlyDeclarationError", "FixedValueConforms", "FixedValueValidates",
                          "RedeclareRejected"],
           "view": "View"}
    res = chk.model_check("MC_C10", cfg, dump=True)
    events = []
    n = 0
    for st in core.load_dump(res):
        if not st["last"]:
            continue
        last = st["last"][0]
        chain = st["chain"]
        t = st["prev"]["t"]
        ev = run_case(chain[:-1], last["c"], st["t0"])
        if ev is None:
            chk.count("receiver_not_buildable")
            chk.drift += 1
            continue
        n += 1
        recv_real = ev.pop("recv_real")
        if recv_real != [st["prev"]]:
            chk.drift += 1
            if len(chk.drift_samples) < 5:
                chk.drift_samples.append({"what": "real receiver differs from the model's",
                                          "chain": chain[:-1], "real": recv_real, "model": st["prev"]})
        ev.update({"id": n, "recv": st["prev"], "call": last["c"], "chain": chain})
        events.append(ev)
        chk.count("calls_" + t)
        chk.count("refused" if ev["exc"] else "accepted")
        if ev["hasfixed"]:
            chk.count("results_with_fixed_value")
    chk.require(n >= 1000, "fewer than 1000 transitions exported (%d)" % n)
    for t in TYPES_ALL:
        chk.require(chk.counts.get("calls_" + t, 0) > 0, "no call replayed for type " + t)
    chk.require(chk.counts.get("results_with_fixed_value", 0) >= 50, "too few fixed-value results")
    verdicts = chk.validate_events("Trace_C10", [{k: v for k, v in e.items() if k != "chain"}
                                                 for e in events])
    chk.absorb(events, verdicts, describe)
    for e in events[:: max(1, len(events) // 5)][:5]:
        chk.sample(describe(e))
    chk.constants = {"Depth": depth}
    chk.assumptions = [
        "argument universe of spec/MC_C10.tla (valid, boundary, contradictory, wrongly-typed values per method)",
        "one witness chain per distinct (receiver schema, call): schemas are values, so the outcome of a call "
        "depends on the receiver's props only (C07 checks that separately)",
    ]
    return chk.finish(rule="every distinct (receiver schema, call) transition of the DSL machine with chains of "
                           "at most %d calls; non-trivial = a transition actually replayed on the real DSL" % depth,
                      extra={"constants": chk.constants})
