"""Probe values on the Python side: one-step edits of an abstract value at every depth
(mirrors spec/D42Probe.tla Mutants; the two need not agree -- these are test inputs, the
verdict on each is computed by TLC from the specification)."""
from .absmap import VObj


def VInt(n): return {"k": "int", "n": n}
def VBool(b): return {"k": "bool", "tf": b}
def VFloat(q): return {"k": "float", "q": q, "sp": "fin"}
def VStr(s): return {"k": "str", "s": list(s)}
def VBytes(s): return {"k": "bytes", "bs": list(s)}
def VList(items): return {"k": "list", "items": list(items)}
def VDict(pairs): return {"k": "dict", "pairs": list(pairs)}
def KV(k, v): return {"key": k, "val": v}


VNone = {"k": "none"}
VInf = {"k": "float", "q": 0, "sp": "inf"}
VNegInf = {"k": "float", "q": 0, "sp": "-inf"}
VNan = {"k": "float", "q": 0, "sp": "nan"}

UNRELATED = [VNone, VBool(True), VBool(False), VInt(0), VInt(7), VFloat(0), VFloat(100), VStr([]), VStr([122]), VBytes([]),
             VList([]), VDict([]), {"k": "uuid", "ver": 4, "id": 0}, {"k": "datetime", "dt": 0},
             {"k": "date", "d": 0}]
EXTRA_KEYS = [VStr([122, 122]), VInt(7), VNone]

ZOO = [VInf, VNegInf, VNan, VFloat(200000), VInt(2000), VInt(-2000), VInt(3000), {"k": "uuid", "ver": 1, "id": 0},
       {"k": "uuid", "ver": 0, "id": 0}] + \
      [VObj(c, [], []) for c in ("tuple0", "tuple12", "set1", "frozenset1", "bytearray_ab", "Decimal1",
                                 "Fraction12", "complex1", "range3", "object_a", "uuidlike", "type_int",
                                 "notimplemented", "set_mixed", "frozenset_mixed", "generator", "lock",
                                 "uncopyable", "tuple_with_list")] + \
      [VObj("MyInt", ["int"], [VInt(1)]), VObj("MyFloat", ["float"], [VFloat(25)]),
       VObj("MyStr", ["str"], [VStr([97, 98])]), VObj("MyBytes", ["bytes"], [VBytes([97])]),
       VObj("MyList", ["list"], [VList([VInt(1)])]),
       VObj("MyDict", ["dict"], [VDict([KV(VStr([97]), VInt(1))])]),
       VObj("OrderedDict", ["dict"], [VDict([KV(VStr([97]), VInt(1))])])]
ZOO_KEYS = [VNan, VObj("tuple12", [], []), VObj("frozenset1", [], []), VInt(2000), VNone, {"k": "ellipsis"},
            VObj("object_a", [], []), VBool(True), VFloat(50), VBytes([97]),
            VObj("frozenset_mixed", [], []), VObj("uncopyable", [], [])]
# members that can be neither copied nor pickled, or whose parts cannot be ordered: wherever a
# container is reported as a whole (missing / extra key or element) one of them may sit next to
# the reported defect
HOSTILE_MEMBERS = [VObj("generator", [], []), VObj("lock", [], []), VObj("uncopyable", [], []),
                   VObj("set_mixed", [], [])]


def local(v):
    k = v["k"]
    out = []
    if k == "bool":
        out += [VBool(not v["tf"]), VInt(1 if v["tf"] else 0)]
    elif k == "int":
        n = v["n"]
        out += [VInt(n + 1), VInt(n - 1)]
        if n in (0, 1):
            out.append(VBool(n == 1))
        if abs(n) <= 900:
            out.append(VFloat(n * 100))
    elif k == "float" and v["sp"] == "fin" and v["q"] == 200000:
        out += [VFloat(150000), VInf]
    elif k == "float":
        if v["sp"] == "fin":
            q = v["q"]
            out += [VFloat(q + 25), VFloat(q - 25), VFloat(q + 1), VFloat(q - 1)]
            if q % 100 == 0 and abs(q) <= 90000:
                out.append(VInt(q // 100))
    elif k == "str":
        s = v["s"]
        out += [VStr(s + [97]), VStr(s + [122]), VStr([122] + s), VBytes(s)]
        if s:
            out += [VStr(s[:-1]), VStr(s[1:]), VStr([122] + s[1:]), VStr(s[:-1] + [122])]
    elif k == "bytes" and v["bs"] == [97, 98]:
        out += [VBytes(v["bs"] + [97]), VStr(v["bs"]), VBytes(v["bs"][1:]), VObj("bytearray_ab", [], [])]
    elif k == "bytes":
        s = v["bs"]
        out += [VBytes(s + [97]), VStr(s)]
        if s:
            out.append(VBytes(s[1:]))
    elif k == "uuid":
        out += [{"k": "uuid", "ver": v["ver"], "id": v["id"] + 1}, {"k": "uuid", "ver": 1, "id": v["id"]}]
    elif k == "datetime":
        n = v["dt"] % 1000
        out += [{"k": "datetime", "dt": v["dt"] + 1}, {"k": "date", "d": n}]
        # the same wall-clock reading, naive / UTC / +03:00 (code -> spec only: three different values)
        out += [{"k": "datetime", "dt": base + n} for base in (0, 1000, 2000) if base + n != v["dt"]]
    elif k == "date":
        out += [{"k": "date", "d": v["d"] + 1}, {"k": "datetime", "dt": v["d"]}]
    return out


def _key_eq(a, b):
    return a == b


def subclassed(v):
    if v["k"] == "list":
        return [VObj("MyList", ["list"], [v])]
    if v["k"] == "dict":
        ps = v["pairs"]
        return [VObj("DefaultDict", ["dict"], [v])] + \
            [VObj("DefaultDict", ["dict"], [VDict(ps[:i] + ps[i + 1:])]) for i in range(len(ps))]
    return []


def mutants(v, repl, keys):
    out = list(repl) + local(v) + subclassed(v)
    if v["k"] == "list":
        it = v["items"]
        for i in range(len(it)):
            out.append(VList(it[:i] + it[i + 1:]))
        out.append(VList(it + [VNone]))
        if it:
            out.append(VList(it + [it[-1]]))
        out.append(VList([VNone] + it))
        for hm in HOSTILE_MEMBERS:
            if hm in repl:
                out.append(VList(it + [hm]))                       # an extra element that is hostile itself
                if it:
                    out.append(VList(it[:-1] + [hm, VNone]))       # ... or sits before the extra one
                    out.append(VList([hm] + it[1:-1]))             # ... or next to a missing one
        if len(it) >= 2 and it[0] != it[1]:
            out.append(VList([it[1], it[0]] + it[2:]))
        for i in range(len(it)):
            for m in mutants(it[i], repl, keys):
                out.append(VList(it[:i] + [m] + it[i + 1:]))
    elif v["k"] == "dict":
        ps = v["pairs"]
        for i in range(len(ps)):
            out.append(VDict(ps[:i] + ps[i + 1:]))
        free = [x for x in keys if not any(_key_eq(p["key"], x) for p in ps)]
        for x in free:
            out.append(VDict(ps + [KV(x, VNone)]))
        for x in free:
            for y in free:
                if x != y:
                    out.append(VDict(ps + [KV(x, VNone), KV(y, VNone)]))
        if VNan in keys:
            out.append(VDict(ps + [KV(VNan, VNone), KV(VNan, VNone)]))
        for hm in HOSTILE_MEMBERS:
            if hm in repl and free:
                out.append(VDict(ps + [KV(free[0], hm)]))          # the value under an extra key
                if ps:
                    out.append(VDict(ps[:-1] + [KV(free[0], hm)]))  # a key is missing and another is extra
        for i in range(len(ps)):
            for m in mutants(ps[i]["val"], repl, keys):
                out.append(VDict(ps[:i] + [KV(ps[i]["key"], m)] + ps[i + 1:]))
    return out


def dedup(vals):
    import json
    seen = set()
    out = []
    for v in vals:
        key = json.dumps(v, sort_keys=True)
        if key not in seen:
            seen.add(key)
            out.append(v)
    return out


def probes_plain(g):
    return dedup([g] + mutants(g, UNRELATED, EXTRA_KEYS))


def probes_zoo(g):
    return dedup(list(ZOO) + mutants(g, ZOO, ZOO_KEYS))
