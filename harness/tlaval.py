"""TLA+ value text <-> Python.

parse(text)      : one TLA+ value as printed by TLC  -> Python
parse_dump(path) : TLC `-dump` file -> iterator of {var: value} per state
to_tla(obj)      : Python -> TLA+ expression text (for generated modules / cfgs)

Mapping: records -> dict, sequences/tuples -> list, sets -> TlaSet (a list subclass, sorted
print order kept), functions with non-1..n domain -> TlaFun (dict subclass), strings -> str,
ints -> int, TRUE/FALSE -> bool, model values / identifiers -> Ident(str subclass).
"""
import re

__all__ = ("parse", "parse_dump", "to_tla", "TlaSet", "TlaFun", "Ident")


class TlaSet(list):
    pass


class TlaFun(dict):
    pass


class Ident(str):
    pass


_TOK = re.compile(r'''
    (?P<ws>\s+)
  | (?P<str>"(?:[^"\\]|\\.)*")
  | (?P<int>-?\d+)
  | (?P<op><<|>>|\|->|:>|@@|/\\|\[|\]|\{|\}|\(|\)|,|=|:)
  | (?P<id>[A-Za-z_][A-Za-z0-9_!]*)
''', re.X)

_UNESC = {'\\\\': '\\', '\\"': '"', '\\n': '\n', '\\t': '\t', '\\r': '\r', '\\f': '\f'}


def _unescape(s):
    return re.sub(r'\\.', lambda m: _UNESC.get(m.group(0), m.group(0)[1]), s)


def tokenize(text):
    out = []
    pos = 0
    n = len(text)
    m = _TOK.match
    while pos < n:
        mo = m(text, pos)
        if mo is None:
            raise ValueError("tlaval: cannot tokenize at %r" % text[pos:pos + 40])
        kind = mo.lastgroup
        if kind != 'ws':
            out.append((kind, mo.group(0)))
        pos = mo.end()
    return out


class _P:
    def __init__(self, toks):
        self.t = toks
        self.i = 0

    def peek(self):
        return self.t[self.i] if self.i < len(self.t) else (None, None)

    def next(self):
        tok = self.t[self.i]
        self.i += 1
        return tok

    def expect(self, val):
        k, v = self.next()
        if v != val:
            raise ValueError("tlaval: expected %r got %r at token %d" % (val, v, self.i))

    def value(self):
        k, v = self.next()
        if k == 'int':
            return int(v)
        if k == 'str':
            return _unescape(v[1:-1])
        if k == 'id':
            if v == 'TRUE':
                return True
            if v == 'FALSE':
                return False
            return Ident(v)
        if v == '<<':
            items = []
            if self.peek()[1] == '>>':
                self.next()
                return items
            while True:
                items.append(self.value())
                k2, v2 = self.next()
                if v2 == '>>':
                    return items
                if v2 != ',':
                    raise ValueError("tlaval: bad sequence")
        if v == '{':
            items = TlaSet()
            if self.peek()[1] == '}':
                self.next()
                return items
            while True:
                items.append(self.value())
                k2, v2 = self.next()
                if v2 == '}':
                    return items
                if v2 != ',':
                    raise ValueError("tlaval: bad set")
        if v == '[':
            rec = {}
            while True:
                k2, name = self.next()
                self.expect('|->')
                rec[str(name)] = self.value()
                k3, v3 = self.next()
                if v3 == ']':
                    return rec
                if v3 != ',':
                    raise ValueError("tlaval: bad record")
        if v == '(':
            fun = TlaFun()
            while True:
                key = self.value()
                self.expect(':>')
                val = self.value()
                fun[_hashable(key)] = val
                k2, v2 = self.next()
                if v2 == ')':
                    return fun
                if v2 != '@@':
                    raise ValueError("tlaval: bad function")
        raise ValueError("tlaval: unexpected token %r" % (v,))


def _hashable(x):
    if isinstance(x, list):
        return tuple(_hashable(i) for i in x)
    if isinstance(x, dict):
        return tuple(sorted((k, _hashable(v)) for k, v in x.items()))
    return x


def parse(text):
    p = _P(tokenize(text))
    v = p.value()
    if p.i != len(p.t):
        raise ValueError("tlaval: trailing tokens")
    return v


_STATE_RE = re.compile(r'^State \d+:\s*$', re.M)


def parse_dump(path, only=None):
    """Yield one {var: value} dict per state of a TLC -dump file.
    `only`: optional substring filter applied to the raw state text before parsing (speed)."""
    with open(path, 'r') as f:
        text = f.read()
    chunks = _STATE_RE.split(text)
    for chunk in chunks:
        chunk = chunk.strip()
        if not chunk:
            continue
        if only is not None and only not in chunk:
            continue
        yield parse_state(chunk)


def parse_state(chunk):
    toks = tokenize(chunk)
    p = _P(toks)
    state = {}
    while p.i < len(toks):
        if p.peek()[1] == '/\\':
            p.next()
        k, name = p.next()
        p.expect('=')
        state[str(name)] = p.value()
    return state


def to_tla(o):
    if isinstance(o, bool):
        return "TRUE" if o else "FALSE"
    if isinstance(o, Ident):
        return str(o)
    if isinstance(o, int):
        return str(o)
    if isinstance(o, str):
        return '"' + o.replace('\\', '\\\\').replace('"', '\\"').replace('\n', '\\n') + '"'
    if isinstance(o, TlaSet) or isinstance(o, (set, frozenset)):
        return "{" + ", ".join(to_tla(x) for x in o) + "}"
    if isinstance(o, (list, tuple)):
        return "<<" + ", ".join(to_tla(x) for x in o) + ">>"
    if isinstance(o, dict):
        if not o:
            raise ValueError("empty record not representable")
        return "[" + ", ".join("%s |-> %s" % (k, to_tla(v)) for k, v in o.items()) + "]"
    raise TypeError("to_tla: %r" % (o,))


# ------------------------------------------------------------------ fast path (json.loads)
_FAST_NAME = re.compile(r'([A-Za-z_][A-Za-z0-9_]*) \|->')
_FAST_VAR = re.compile(r'^(?:/\\ )?([A-Za-z_][A-Za-z0-9_]*) = ', re.M)
_STR_OK = re.compile(r'"[A-Za-z0-9_ .:+\-]*"')


def _fast_value(text):
    import json
    t = text.replace('{', '<<').replace('}', '>>')
    t = _FAST_NAME.sub(r'"\1":', t)
    t = t.replace('[', '{').replace(']', '}').replace('<<', '[').replace('>>', ']')
    t = t.replace('TRUE', 'true').replace('FALSE', 'false')
    return json.loads(t)


def parse_dump_fast(path, only=None):
    """like parse_dump, but translates TLA+ value text to JSON with string replaces and lets
    json.loads do the work.  Sound only when no string literal contains brackets/braces or the
    words TRUE/FALSE and no function/model values are printed; falls back to the exact parser
    per state when the translation does not parse."""
    with open(path, 'r') as f:
        text = f.read()
    for chunk in _STATE_RE.split(text):
        chunk = chunk.strip()
        if not chunk:
            continue
        if only is not None and only not in chunk:
            continue
        try:
            bad = False
            for m in re.finditer(r'"(?:[^"\\]|\\.)*"', chunk):
                s = m.group(0)
                if not _STR_OK.fullmatch(s) or 'TRUE' in s or 'FALSE' in s:
                    bad = True
                    break
            if bad:
                raise ValueError
            state = {}
            ms = list(_FAST_VAR.finditer(chunk))
            for i, m in enumerate(ms):
                end = ms[i + 1].start() if i + 1 < len(ms) else len(chunk)
                state[m.group(1)] = _fast_value(chunk[m.end():end])
            yield state
        except ValueError:
            yield parse_state(chunk)
