"""C09  Regex generation yields a full match or refuses loudly.

(A) spec/MC_Regex.tla: regex ASTs built by constructor actions, observed under tapes of draw
outcomes and max_repeat settings on the generator model; invariants: a returned string is a
full match (set-of-end-positions matcher of spec/D42Regex.tla), a supported pattern is never
refused, an unsupported construct that is reached raises.
(B) each (pattern, tape, max_repeat) is printed to pattern text and run on the real
RegexGenerator under the scripted RNG (and, at the default max_repeat, through
fake(schema.str.regex(p)) + validate).
(C) spec/Trace_C09.tla decides: spec matcher, Python re.fullmatch (with an alarm), validate.
"""
import re
import signal

from . import absmap as am
from . import core, faketape, rxtext


class _Timeout(Exception):
    pass


def _alarm(signum, frame):
    raise _Timeout()


def py_fullmatch(pattern, text):
    signal.signal(signal.SIGALRM, _alarm)
    signal.setitimer(signal.ITIMER_REAL, 2.0)
    try:
        return "yes" if re.fullmatch(pattern, text) is not None else "no"
    except _Timeout:
        return "timeout"
    except re.error:
        return "invalid"
    finally:
        signal.setitimer(signal.ITIMER_REAL, 0)


def run_one(rx, tape, mr, via_fake):
    import d42
    from d42.generation import Random, RegexGenerator
    text = rxtext.print_rx(rx)
    ev = {"rx": rx, "mr": mr, "tape": tape, "exc": "", "w": [], "py_full": "no", "via_fake": via_fake,
          "vok": True, "pattern": text}
    try:
        re.compile(text)
    except (re.error, OverflowError):
        return None                      # not a pattern Python accepts (e.g. variable-width look-behind)
    try:
        with faketape.installed(tape):
            if via_fake:
                sch = d42.schema.str.regex(text)
                out = d42.fake(sch)
            else:
                out = RegexGenerator(Random(), max_repeat=mr).generate(text)
    except Exception as e:
        ev["exc"] = type(e).__name__
        return ev
    if len(out) > 400:
        return None
    ev["w"] = am.a_text(out)
    ev["py_full"] = py_fullmatch(text, out)
    if via_fake:
        # the library's validator uses re.search: the same backtracking blow-up as re.fullmatch can
        # hit it -- under the same alarm, and a timeout gives no verdict
        signal.signal(signal.SIGALRM, _alarm)
        signal.setitimer(signal.ITIMER_REAL, 2.0)
        try:
            ev["vok"] = not d42.validate(sch, out).has_errors()
        except _Timeout:
            ev["vok"] = True
        except Exception:
            ev["vok"] = False
        finally:
            signal.setitimer(signal.ITIMER_REAL, 0)
    return ev


def has_char_draw(rx):
    k = rx["r"]
    if k in ("any", "class", "notlit"):
        return True
    if k in ("group", "rep", "uns"):
        return has_char_draw(rx["body"])
    if k == "alt":
        return any(has_char_draw(x) for x in rx["alts"])
    if k == "seq":
        return any(has_char_draw(x) for x in rx["parts"])
    return False


A_ = 97
_CLS = lambda neg, items: {"r": "class", "neg": neg, "items": items}      # noqa: E731
_CL = lambda c: {"ci": "lit", "c": c}                                    # noqa: E731
_CR = lambda lo, hi: {"ci": "range", "lo": lo, "hi": hi}                 # noqa: E731
_CC = lambda cat: {"ci": "cat", "cat": cat}                              # noqa: E731
ATOMS = [{"r": "lit", "c": A_}, {"r": "lit", "c": 46}, {"r": "lit", "c": 98}, {"r": "any"},
         _CLS(False, [_CC("digit")]), _CLS(False, [_CC("word")]),
         _CLS(False, [_CL(A_), _CR(98, 99), _CC("word")]), _CLS(True, [_CR(A_, 99), _CC("digit")]),
         {"r": "notlit", "c": A_}, _CLS(False, [_CR(A_, 99)]), _CLS(True, [_CL(A_)]),
         _CLS(True, [_CR(32, 126)]), _CLS(False, [_CC("space")]), _CLS(False, [_CC("ndigit")]),
         _CLS(True, [_CC("word"), _CL(45)]), _CLS(False, [_CC("nword")]), _CLS(True, [_CC("nspace")]),
         # negated classes that leave only punctuation / only letters as candidates
         _CLS(True, [_CC("word"), _CL(32), _CL(45)]), _CLS(True, [_CR(32, 64), _CR(91, 96), _CR(123, 126)])]
INF = -1
BOUNDS = [(0, 1), (0, INF), (1, INF), (1, 3), (33, INF), (2, 2), (0, 0), (0, 44), (40, 44), (2, INF)]
UNS = ["lookahead", "nlookahead", "lookbehind", "nlookbehind", "backref", "atomic", "possessive"]


def _flat(x):
    return x["parts"] if x["r"] == "seq" else [x]


def rand_rx(rng, steps):
    """the constructor program of spec/MC_Regex.tla run with random choices"""
    stack = []
    for _ in range(steps):
        moves = []
        if len(stack) < 2:
            moves += ["push"] * 3
        if stack:
            moves += ["group", "rep", "rep", "uns"]
        if len(stack) >= 2:
            moves += ["seq", "seq", "alt"]
        mv = rng.choice(moves)
        if mv == "push":
            if rng.random() < 0.25:
                items = rng.sample([_CC("word"), _CC("digit"), _CL(32), _CL(45), _CL(95), _CR(A_, 122), _CR(65, 90),
                                    _CR(48, 57), _CR(33, 47), _CR(58, 64), _CR(91, 96), _CR(123, 126)], rng.randrange(1, 7))
                stack.append(_CLS(rng.random() < 0.6, items))
            else:
                stack.append(rng.choice(ATOMS))
        elif mv == "group":
            stack[-1] = {"r": "group", "kind": rng.choice(["cap", "noncap", "named"]), "body": stack[-1]}
        elif mv == "rep":
            lo, hi = rng.choice(BOUNDS)
            stack[-1] = {"r": "rep", "body": stack[-1], "lo": lo, "hi": hi, "lazy": rng.random() < 0.3}
        elif mv == "uns":
            if rng.random() < 0.25:
                stack[-1] = {"r": "uns", "kind": rng.choice(UNS), "body": stack[-1]}
        elif mv == "seq":
            b = stack.pop()
            a = stack.pop()
            stack.append({"r": "seq", "parts": _flat(a) + _flat(b)})
        else:
            b = stack.pop()
            a = stack.pop()
            stack.append({"r": "alt", "alts": [a, b]})
    if not stack:
        return None
    while len(stack) > 1:
        b = stack.pop()
        a = stack.pop()
        stack.append({"r": "seq", "parts": _flat(a) + _flat(b)})
    rx = stack[0]
    if rng.random() < 0.15:
        rx = {"r": "seq", "parts": [{"r": "at", "at": "start"}] + _flat(rx) + [{"r": "at", "at": "end"}]}
    return rx


def worst_len(x, m):
    k = x["r"]
    if k in ("lit", "notlit", "any", "class"):
        return 1
    if k == "at":
        return 0
    if k in ("group", "uns"):
        return worst_len(x["body"], m)
    if k == "rep":
        n = max(m, x["lo"]) if x["hi"] in (INF, 44) else x["hi"]
        return n * worst_len(x["body"], m)
    if k == "seq":
        return sum(worst_len(p, m) for p in x["parts"])
    return max(worst_len(a, m) for a in x["alts"])


def describe(e):
    return {"pattern": e.get("pattern"), "max_repeat": e["mr"], "tape": e["tape"], "exc": e["exc"],
            "generated": am.g_text(e["w"]), "re_fullmatch": e["py_full"], "via_fake": e["via_fake"],
            "validate_ok": e["vok"]}


def main(chk):
    core.setup_repo_path()
    quick = chk.tier == "quick"
    # (MaxSteps, Rich, MaxRepeats, MaxLen, share of the observed runs replayed on the real generator):
    # TLC checks the invariants in *every* state; the thorough tier replays a seeded sample of the
    # larger machines (the full quick machine is always replayed whole)
    # share 0: the machine is model-checked only (no state dump)
    configs = [(3, "FALSE", "{2, 32}", 40, 1.0)] if quick else \
              [(3, "FALSE", "{0, 1, 2, 32, 100}", 40, 1.0), (3, "TRUE", "{1, 100}", 50, 0)]
    import random as _random
    rng = _random.Random(chk.seed)
    events = []
    res = None
    for (steps, rich, mrs, maxlen, share) in configs:
        cfg = {"constants": {"MaxSteps": str(steps), "Rich": rich, "MaxRepeats": mrs, "MaxLen": str(maxlen)},
               "invariants": ["C09_FullMatchOrRefusal", "C09_SupportedNeverRefused", "C09_SearchAccepts"],
               "view": "View"}
        r = chk.model_check("MC_Regex", cfg, name="C09_MC_Regex_%d_%s" % (steps, rich), dump=share > 0, timeout=5000)
        if res is None:
            res = r
        if share <= 0:
            continue
        for st in core.load_dump(r, only='"obs"'):
            if st["phase"] != "obs":
                continue
            if share < 1.0 and rng.random() >= share:
                chk.count("observed_runs_model_only")
                continue
            rx = st["stack"][0]
            for via_fake in ([False, True] if st["mr"] == 32 else [False]):
                ev = run_one(rx, st["tape"], st["mr"], via_fake)
                if ev is None:
                    chk.count("pattern_skipped")
                    continue
                ev["id"] = len(events) + 1
                events.append(ev)
                chk.count("refused" if ev["exc"] else "generated")
                if ev["py_full"] == "timeout":
                    chk.count("re_timeout")
        if r is not res:
            try:
                import os
                os.remove(r.dump)
            except OSError:
                pass
    steps, maxlen = max(c[0] for c in configs), max(c[3] for c in configs)
    # code -> spec only: every outcome of the single-character draws.  For each short pattern of
    # the machine that contains a character draw (., a class, a negated class), the generator is
    # run with *every* index as the outcome of each choice (the model cannot predict which letter
    # an index selects from a hash-ordered candidate string; the verdict does not need to)
    seen = set()
    for st in core.load_dump(res, only='"obs"'):
        if st["phase"] != "obs" or st["steps"] > 2:
            continue
        rx = st["stack"][0]
        k = core.json.dumps(rx, sort_keys=True)
        if k in seen or not has_char_draw(rx):
            continue
        seen.add(k)
        for idx in range(1, 101):
            for via_fake in (False, True):
                ev = run_one(rx, ["i:%d" % idx], 32, via_fake)
                if ev is None:
                    continue
                ev["id"] = len(events) + 1
                events.append(ev)
                chk.count("index_sweep_runs")
    # degenerate programs of the same grammar: the empty pattern and empty branches / bodies
    E = {"r": "seq", "parts": []}
    La = {"r": "lit", "c": A_}
    for rx in (E, {"r": "alt", "alts": [La, E]}, {"r": "alt", "alts": [E, La]}, {"r": "group", "kind": "cap", "body": E},
               {"r": "rep", "body": {"r": "group", "kind": "noncap", "body": E}, "lo": 0, "hi": INF, "lazy": False},
               {"r": "seq", "parts": [{"r": "at", "at": "start"}, {"r": "at", "at": "end"}]},
               {"r": "rep", "body": La, "lo": 0, "hi": 0, "lazy": False}):
        for tape in (["lo"], ["hi"], ["lo1"], ["hi1"]):
            for mr in (0, 32):
                for via_fake in ([False, True] if mr == 32 else [False]):
                    ev = run_one(rx, tape, mr, via_fake)
                    if ev is not None:
                        ev["id"] = len(events) + 1
                        events.append(ev)
                        chk.count("degenerate_pattern_runs")
    # repeat counts beyond every default (32) and beyond 64, over bodies of one, two and three
    # characters and of varying width
    AB = {"r": "group", "kind": "cap", "body": {"r": "seq", "parts": [La, {"r": "lit", "c": 98}]}}
    DD = {"r": "group", "kind": "noncap", "body": {"r": "seq", "parts": [ATOMS[4], ATOMS[4], {"r": "lit", "c": 45}]}}
    ABC = {"r": "group", "kind": "noncap", "body": {"r": "alt", "alts": [La, {"r": "seq", "parts": [{"r": "lit", "c": 98}, {"r": "lit", "c": 99}]}]}}
    for body in (La, AB, DD, ABC):
        for lo, hi in ((65, 65), (70, INF), (64, 66), (33, 33), (129, 130)):
            rx = {"r": "rep", "body": body, "lo": lo, "hi": hi, "lazy": False}
            for tape in (["lo"], ["hi"], ["lo", "hi"]):
                for via_fake in (False, True):
                    ev = run_one(rx, tape, 32, via_fake)
                    if ev is not None:
                        ev["id"] = len(events) + 1
                        events.append(ev)
                        chk.count("long_repeat_runs")
    # code -> spec beyond the machine's depth: random ASTs from the same constructors (rich
    # alphabet, up to 6 steps), every boundary tape; the verdicts are Trace_C09's as for the rest
    nrand = 1500 if quick else 12000
    made = 0
    tries = 0
    while made < nrand and tries < nrand * 10:
        tries += 1
        rx = rand_rx(rng, rng.randrange(2, 7))
        mr = rng.choice([0, 1, 2, 3, 32, 100])
        if rx is None or worst_len(rx, mr) > 60:
            continue
        tape = [rng.choice(["lo", "lo1", "hi1", "hi"]) for _ in range(rng.randrange(1, 4))]
        for via_fake in ([False, True] if mr == 32 else [False]):
            ev = run_one(rx, tape, mr, via_fake)
            if ev is None:
                continue
            ev["id"] = len(events) + 1
            events.append(ev)
            chk.count("random_deep_runs")
            made += 1
    chk.require(chk.counts.get("index_sweep_runs", 0) >= 2000, "index sweep too small")
    chk.require(len(events) >= 10000, "fewer than 10000 generator runs (%d)" % len(events))
    chk.require(chk.counts.get("generated", 0) >= 5000 and chk.counts.get("refused", 0) >= 500,
                "outcome mix too thin: %r" % chk.counts)
    slim = [{k: e[k] for k in ("id", "rx", "mr", "tape", "exc", "w", "py_full", "via_fake", "vok")} for e in events]
    verdicts = chk.validate_events("Trace_C09", slim)
    chk.absorb(events, verdicts, describe)
    for e in events[:: max(1, len(events) // 5)][:5]:
        chk.sample(describe(e))
    chk.assumptions = ["regex ASTs of at most %d constructor steps over the atoms/bounds/groups of spec/MC_Regex.tla; "
                       "anchors only at the ends of the whole pattern" % steps,
                       "only patterns whose longest generated string stays <= %d characters are observed "
                       "(the spec matcher is polynomial but interpreted)" % maxlen,
                       "re.fullmatch runs under a 2 s alarm; a timeout gives no verdict from Python's matcher"]
    return chk.finish(rule="(pattern, tape, max_repeat) runs enumerated by the machine; non-trivial = a run on the "
                           "real RegexGenerator",
                      extra={"configs": [{"MaxSteps": c[0], "Rich": c[1], "MaxRepeats": c[2], "MaxLen": c[3],
                                          "share_replayed": c[4]} for c in configs]})
