"""Replay of spec/MC_Result.tla histories on the real ValidationResult (spec -> code) and the
observations spec/Trace_Result.tla decides (code -> spec)."""


class _Err:
    """an opaque error token (a ValidationResult never looks inside)"""
    def __init__(self, name):
        self.name = name

    def __repr__(self):
        return "<%s>" % self.name


def replay(hist):
    from d42.validation import ValidationResult
    tokens = {}

    def tok(name):
        return tokens.setdefault(name, _Err(name))
    results, lists = [], []
    chain = True
    for act in hist:
        a = act["a"]
        if a == "new":
            results.append(ValidationResult())
        elif a == "new_from":
            results.append(ValidationResult(lists[act["l"] - 1]))
        elif a == "new_list":
            lists.append([tok(n) for n in act["b"]])
        elif a == "add_error":
            r = results[act["r"] - 1]
            chain = chain and (r.add_error(tok(act["e"])) is r)
        elif a == "add_errors":
            r = results[act["r"] - 1]
            chain = chain and (r.add_errors([tok(n) for n in act["b"]]) is r)
        elif a == "add_errors_list":
            r = results[act["r"] - 1]
            chain = chain and (r.add_errors(lists[act["l"] - 1]) is r)
        elif a == "get_errors":
            lists.append(results[act["r"] - 1].get_errors())
        elif a == "list_append":
            lists[act["l"] - 1].append(tok(act["e"]))
    errs, has, shown = [], [], []
    for r in results:
        es = r.get_errors()
        errs.append([getattr(e, "name", "?") for e in es])
        has.append(bool(r.has_errors()))
        text = repr(r)
        shown.append(text.startswith("ValidationResult(") and ((text != "ValidationResult()") == (len(es) > 0))
                     and all(("<%s>" % e.name) in text for e in es))
    return {"errs": errs, "has": has, "shown": shown, "chain": chain}


def cases(chk):
    from . import core
    steps = 4 if chk.tier == "quick" else 5
    res = chk.model_check("MC_Result", {"constants": {"MaxSteps": str(steps), "MaxObjs": "3"},
                                        "invariants": ["StateIsRun"],
                                        "properties": ["AppendOnly", "EmptyBatchIsNoOp", "Isolation"]},
                          name="%s_MC_Result" % chk.pid, dump=True)
    events = []
    for st in core.load_dump(res):
        if not st["hist"]:
            continue
        ev = replay(st["hist"])
        ev.update({"id": len(events) + 1, "hist": st["hist"]})
        events.append(ev)
        chk.count("result_histories")
    chk.require(len(events) >= 500, "too few ValidationResult histories (%d)" % len(events))
    verdicts = chk.validate_events("Trace_Result", events, name="%s_Trace_Result" % chk.pid,
                                   extra_constants={"MaxSteps": str(steps), "MaxObjs": "3"})
    chk.absorb(events, verdicts, lambda e: {"result_history": e})
    chk.sample({"result_history": events[len(events) // 2]})
