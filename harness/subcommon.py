"""C04 / C05 / C12 driver: spec/MC_Sub.tla -> real substitute() -> spec/Trace_Sub.tla"""
from . import absmap as am
from .common import safe_repr
from . import core, mutants, valgen
from .common import try_abs, tla_set

INVS = {"C04": ["C04_Pins"], "C05": ["C05_Narrows"],
        "C12": ["C12_OnlySubstitutionError", "C12_ResultUsable", "C12_Idempotent"]}
CONST_TAPES = [["lo"], ["lo1"], ["hi1"], ["hi"]]


def describe(e):
    return {"schema": e["s"], "schema_repr": e.get("srepr"), "value": e["v"], "value_repr": e.get("vrepr"),
            "exc": e["exc"], "result": e["r"], "result_repr": e.get("rrepr"),
            "conf_sv": e["conf_sv"], "conf_rv": e["conf_rv"], "gens": e["gens"], "again": e["again"],
            "probes_failing": [p for p in e["probes"] if p["ok_r"] and not p["ok_s"]][:3]}


def ok_validate(schema, value):
    from .common import accepts
    return accepts(schema, value)


def observe(real, s, v_abs, v_real, nprobes, rng):
    import d42
    ev = {"s": s, "v": v_abs, "exc": "", "rep": False, "r": [], "conf_sv": ok_validate(real, v_real),
          "conf_rv": False, "gens": [], "probes": [], "again": {"exc": "", "eq": True, "ne": False},
          "srepr": safe_repr(real)[:300], "vrepr": safe_repr(v_real)[:200]}
    try:
        result = d42.substitute(real, v_real)
    except BaseException as e:  # noqa: the exception type is the observation
        ev["exc"] = type(e).__name__
        return ev
    ev["rep"], ev["r"] = try_abs(am.a_schema, result)
    try:
        ev["rrepr"] = safe_repr(result)[:300]
    except Exception as e:
        ev["rrepr"] = "<repr raised %s>" % type(e).__name__
    ev["conf_rv"] = ok_validate(result, v_real)
    for tape in CONST_TAPES:
        exc, w = valgen.real_fake(result, tape)
        g = {"exc": exc, "vok": False, "sok": False, "rep": False, "w": []}
        if not exc:
            g["vok"] = ok_validate(result, w)
            g["sok"] = ok_validate(real, w)
            g["rep"], g["w"] = try_abs(am.a_value, w)
        ev["gens"].append(g)
    probes = mutants.probes_plain(v_abs)
    if nprobes is not None and len(probes) > max(nprobes, 32):      # the probes of a scalar are all kept
        probes = [probes[0]] + rng.sample(probes[1:], nprobes - 1)
    for w in probes:
        try:
            w_real = am.g_value(w)
            w_abs = am.a_value(w_real)
        except am.Unrepresentable:
            continue
        ev["probes"].append({"w": w_abs, "ok_r": ok_validate(result, w_real), "ok_s": ok_validate(real, w_real)})
    try:
        again = d42.substitute(result, v_real)
        ev["again"]["eq"] = bool(again == result)
        ev["again"]["ne"] = bool(again != result)
    except BaseException as e:  # noqa
        ev["again"]["exc"] = type(e).__name__
    return ev


def subclass_cases(nprobes, rng):
    import collections
    import enum
    import http
    import d42

    class Colour(str, enum.Enum):
        RED = "red"

    members = [http.HTTPStatus.OK, am.MyInt(7), am.MyStr("z"), Colour.RED, am.MyFloat(0.5), am.MyBytes(b"a"),
               collections.OrderedDict(a=1), am.MyList([1]), am.MyDict({"a": 1})]
    bare_any = {"t": "any", "types": []}
    bare_list = {"t": "list", "type": [], "elems": [], "len": [], "min_len": [], "max_len": []}
    bare_dict = {"t": "dict", "keys": []}
    relaxed = {"t": "dict", "keys": [[{"key": {"k": "ellipsis"}, "val": {"k": "ellipsis"}, "opt": False}]]}
    out = []
    for m in members:
        for s, wrap in ((bare_any, lambda x: x), (bare_any, lambda x: [x]), (bare_list, lambda x: [x, x]),
                        (bare_dict, lambda x: {"k": x}), (relaxed, lambda x: {"k": [x]})):
            v_real = wrap(m)
            real = am.g_schema(s)
            ev = observe(real, s, {"k": "none"}, v_real, 0, rng)
            ev["v"] = {"k": "obj", "cls": type(m).__name__, "isa": [], "base": []}
            ev["rep"], ev["r"], ev["probes"], ev["model"] = False, [], [], False
            for g in ev["gens"]:
                g["rep"], g["w"] = False, []
            out.append(ev)
    return out


def real_float_cases(rng):
    import d42
    from . import deep
    s_abs = {"t": "float", "value": [], "min": [], "max": [], "precision": []}
    v_abs = {"k": "float", "q": 0, "sp": "fin"}
    out = []
    receivers = []
    for v, p in deep.TIE_VALUES:
        receivers.append((d42.schema.float.precision(p), v))
        receivers.append((d42.schema.dict({"x": d42.schema.float.precision(p)}), {"x": v}))
    for which, b, p in deep.TIE_BOUNDS:
        sch = getattr(d42.schema.float, which)(b).precision(p)
        for v in (b, b + 10.0 ** -p / 3, b - 10.0 ** -p / 3, round(b, p), b + 0.0002):
            receivers.append((sch, v))
    for real, v_real in receivers:
        ev = observe(real, s_abs, v_abs, v_real, 0, rng)
        ev["rep"], ev["r"], ev["probes"], ev["model"] = False, [], [], False
        for g in ev["gens"]:
            g["rep"], g["w"] = False, []
        out.append(ev)
    return out


DEEP_REPL = mutants.UNRELATED + [am.VObj("tuple12", [], []), {"k": "ellipsis"},
                                  mutants.VDict([mutants.KV({"k": "ellipsis"}, mutants.VInt(1))]),
                                  mutants.VDict([mutants.KV(mutants.VStr([122, 122]), {"k": "ellipsis"})]),
                                  mutants.VInf, {"k": "uuid", "ver": 1, "id": 0}]


def deep_cases(chk, nschemas, nprobes):
    """code -> spec: random declarations nested three levels (custom types, aliases, unions in lists
    in dicts), substituted with what they generate under the constant tapes and with one-step edits
    of that (replaced members of every kind incl. placeholders, dropped and extra keys)"""
    from . import deep
    rng = chk.rng
    for s, real in deep.schemas(rng, nschemas, 3):
        s = am.a_schema(real)       # as it reads back now (two regex programs can print the same text)
        seeds = []
        for tape in CONST_TAPES:
            exc, w = valgen.real_fake(real, tape)
            if exc:
                continue
            rep, wa = try_abs(am.a_value, w)
            if rep and wa[0] not in seeds:
                seeds.append(wa[0])
        values = list(seeds[:2])
        for v in seeds[:2]:
            edits = mutants.dedup(mutants.mutants(v, DEEP_REPL, mutants.EXTRA_KEYS))
            values += rng.sample(edits, min(3, len(edits)))
        for v in values:
            try:
                v_real = am.g_value(v)
                v_abs = am.a_value(v_real)
            except (am.Unrepresentable, TypeError):
                continue
            ev = observe(real, s, v_abs, v_real, nprobes, rng)
            ev["model"] = True
            yield ev


def run(chk, prop):
    core.setup_repo_path()
    quick = chk.tier == "quick"
    depth, cset = (1, "level1") if quick else (2, "all")
    nprobes = 8 if quick else 40
    keep = 0.25 if quick else 0.2        # (the real outcome of *every* case is still compared with the model's)
    cfg = {"constants": {"Depth": str(depth), "Types": tla_set(valgen.SCALAR_TYPES),
                         "ContainerSet": '"%s"' % cset},
           "overrides": {"SeedTapes": "QuickSeedTapes" if quick else "AllSeedTapes"},
           "invariants": INVS[prop], "view": "View"}
    res = chk.model_check("MC_Sub", cfg, dump=True)
    cache = valgen.SchemaCache(chk)
    events = []
    import d42
    for st in core.load_dump(res, only='phase = "sub"'):
        if st["phase"] != "sub":
            continue
        s, v = st["s"], st["v"]
        is_seed = (v == st["seed"])
        chk.count("model_cases")
        real, why = cache.get(s)
        if real is None:
            continue
        try:
            v_real = am.g_value(v)
            v_abs = am.a_value(v_real)
        except am.Unrepresentable:
            chk.count("value_not_concretisable")
            continue
        # cheap pass over *every* case: does the real outcome match the model's prediction?
        # (a mismatch is only drift -- but that case is then observed in full and judged)
        model = st["r"]
        try:
            quick_res = d42.substitute(real, v_real)
            rep_q, abs_q = try_abs(am.a_schema, quick_res)
            differs = (not model["ok"]) or (rep_q and abs_q[0] != model["s"])
        except BaseException as e:  # noqa
            differs = model["ok"] or model["exc"] != type(e).__name__
        chk.count("outcomes_compared_with_model")
        if differs:
            chk.count("outcome_differs_from_model")
        scalar = s["t"] not in ("list", "dict", "any", "alias", "custom")
        if not (is_seed or differs or scalar or chk.rng.random() <= keep):
            continue
        ev = observe(real, s, v_abs, v_real, nprobes, chk.rng)
        ev["id"] = len(events) + 1
        ev["model"] = True
        events.append(ev)
        chk.count("refused" if ev["exc"] else "substituted")
        chk.count("seed_values" if is_seed else "edited_values")
        chk.count("schema_" + s["t"])
    # code -> spec only: members that are instances of *subclasses* of the built-in scalar and
    # container types (an IntEnum member, a str subclass, an OrderedDict) at untyped positions
    for ev in subclass_cases(nprobes, chk.rng):
        ev["id"] = len(events) + 1
        events.append(ev)
        chk.count("subclass_member_cases")
    # code -> spec only: real binary floats (decimal ties, bounds off the precision grid) pinned by
    # substitution; the abstract schema and value are stand-ins (a plain float)
    for ev in real_float_cases(chk.rng):
        ev["id"] = len(events) + 1
        events.append(ev)
        chk.count("real_float_cases")
    for ev in deep_cases(chk, 300 if quick else 3000, nprobes):
        ev["id"] = len(events) + 1
        events.append(ev)
        chk.count("deep_random_cases")
        chk.count("deep_refused" if ev["exc"] else "deep_substituted")
    chk.require(len(events) >= 5000, "fewer than 5000 substitutions replayed (%d)" % len(events))
    chk.require(chk.counts.get("substituted", 0) >= 1500 and chk.counts.get("refused", 0) >= 1000,
                "outcome mix too thin: %r" % chk.counts)
    slim = [{k: e[k] for k in ("id", "s", "v", "exc", "rep", "r", "conf_sv", "conf_rv", "gens", "probes",
                               "again", "model")} for e in events]
    verdicts = chk.validate_events("Trace_Sub", slim, extra_constants={"Prop": '"%s"' % prop})
    chk.absorb(events, verdicts, describe)
    oks = [e for e in events if not e["exc"]]
    for e in (oks[:: max(1, len(oks) // 4)][:4] + events[-1:]):
        chk.sample(describe(e))
    chk.exhaustive = keep == 1.0
    chk.assumptions = [
        "schema universe of spec/MC_Sub.tla (%s containers; scalars reachable by <= %d DSL calls)" % (cset, depth),
        "values: generated seeds under the four constant tapes and every one-step edit of them "
        "(partial dicts, replaced members incl. an unconvertible tuple, extra keys)%s"
        % ("" if keep == 1.0 else "; the real outcome of every case is compared with the model's prediction, all cases "
           "that differ, all seed-value cases and %.0f%% of the rest (VERIF_SEED) are observed in full" % (keep * 100)),
        "at most %d probe values per case for the accepted-set comparisons" % nprobes,
    ]
    return chk.finish(rule="(schema, value) substitutions enumerated by the machine; non-trivial = a case "
                           "replayed on the real substitute()",
                      extra={"constants": {"Depth": depth, "ContainerSet": cset, "probes": nprobes, "keep": keep}})
