"""Replay of spec/MC_Registry.tla histories on the real classes (spec -> code) and recording of
what the real classes then answer to every query (code -> spec, spec/Trace_Registry.tla).

The tables are process-global (attributes of SchemaFacade and of the visitor classes), so each
history runs against fresh user classes and the library classes are restored afterwards."""
NAMES = ["int", "x", "alias"]
VISITORS = ["Validator", "Generator", "Representor", "Substitutor", "UV", "UV2"]
INSTANTIABLE = ["IntSchema", "StrSchema", "CFull", "CNoVal", "CBare", "CAcc", "CRaw"]


class _Via(Exception):
    pass


class _Marker(str):
    def has_errors(self):          # what the substitutor asks of a validation result
        raise _Via(str(self))


def _schema_classes():
    from niltype import Nil
    from d42.custom_type import CustomSchema, Props, Schema
    from d42.declaration.types import IntSchema, StrSchema

    class CFull(CustomSchema[Props]):
        def __validate__(self, visitor, *, value=Nil, path=Nil, **kwargs):
            return _Marker("hook:validate")

        def __generate__(self, visitor, **kwargs):
            return _Marker("hook:generate")

        def __represent__(self, visitor, *, indent=0, **kwargs):
            return _Marker("hook:represent")

        def __substitute__(self, visitor, *, value=Nil, **kwargs):
            return _Marker("hook:substitute")

    class CNoVal(CustomSchema[Props]):
        def __generate__(self, visitor, **kwargs):
            return _Marker("hook:generate")

        def __represent__(self, visitor, *, indent=0, **kwargs):
            return _Marker("hook:represent")

        def __substitute__(self, visitor, *, value=Nil, **kwargs):
            return _Marker("hook:substitute")

    class CBare(CustomSchema[Props]):
        pass

    class CAcc(CFull):
        def __accept__(self, visitor, **kwargs):
            return visitor.visit_x(self, **kwargs)

    class CRaw(Schema[Props]):
        pass

    class NotSchema:
        pass

    return {"IntSchema": IntSchema, "StrSchema": StrSchema, "CFull": CFull, "CNoVal": CNoVal, "CBare": CBare,
            "CAcc": CAcc, "CRaw": CRaw, "CustomSchema": CustomSchema, "Schema": Schema, "NotSchema": NotSchema}


def _visitor_classes():
    from d42.declaration import SchemaVisitor
    from d42.generation import Generator
    from d42.representation import Representor
    from d42.substitution import Substitutor
    from d42.validation import Validator

    class UV(SchemaVisitor):
        pass

    class UV2(UV):
        pass

    class Mixin:
        pass

    from d42.validation import Formatter
    return {"Validator": Validator, "Generator": Generator, "Representor": Representor,
            "Substitutor": Substitutor, "UV": UV, "UV2": UV2, "Mixin": Mixin, "Formatter": Formatter}


def _snapshot(classes):
    return [(c, dict(c.__dict__)) for c in classes]


def _restore(snap):
    for c, before in snap:
        for k in list(c.__dict__):
            if k not in before:
                delattr(c, k)
            elif c.__dict__[k] is not before[k]:
                setattr(c, k, before[k])


def _extend(vis, bases, flag, meth):
    def method(self, schema=None, **kwargs):
        return _Marker("ext:" + meth) if not meth.startswith("_format") else "<plugin helper>"
    body = {"attr": 5} if meth == "attr" else {meth: method}
    kw = {"true": {"extend": True}, "one": {"extend": 1}, "absent": {}}[flag]
    import types
    types.new_class("Ext", tuple(vis[b] for b in bases), kw, lambda ns: ns.update(body))


def _outcome(fn):
    from d42.validation import ValidationResult
    try:
        r = fn()
    except _Via as e:
        return "via_validator:" + str(e)
    except (TypeError, AttributeError, NotImplementedError) as e:
        return type(e).__name__
    except Exception as e:  # noqa
        return "other:" + type(e).__name__
    if isinstance(r, _Marker):
        return str(r)
    return r


def replay(hist):
    """run the actions; returns {"outs", "access", "dispatch"}"""
    import d42
    from d42.declaration import SchemaFacade, register_type
    from d42.declaration.types import Schema
    cls = _schema_classes()
    vis = _visitor_classes()
    lib = [vis[v] for v in ("Validator", "Generator", "Representor", "Substitutor", "Formatter")]
    snap = _snapshot([SchemaFacade] + lib)
    try:
        outs = []
        for act in hist:
            if act["a"] == "register":
                r = _outcome(lambda: register_type(act["name"], cls[act["cls"]]))
                if not isinstance(r, str):
                    r = "inst:" + _cls_name(cls, type(r))
                outs.append(r)
            else:
                r = _outcome(lambda: _extend(vis, act["bases"], act["flag"], act["meth"]))
                outs.append("ok" if r is None else r)
        access = {}
        for n in NAMES:
            r = _outcome(lambda: getattr(d42.schema, n))
            if not isinstance(r, str):
                r = "inst:" + _cls_name(cls, type(r)) if isinstance(r, Schema) else "method"
            access[n] = r
        dispatch = {}
        for c in INSTANTIABLE:
            dispatch[c] = {}
            for v in VISITORS:
                inst = cls[c]()
                visitor = _instance(vis, v)
                kw = {"Validator": {"value": 1 if c == "IntSchema" else "a"},
                      "Substitutor": {"value": 1 if c == "IntSchema" else "a"}}.get(v, {})
                r = _outcome(lambda: inst.__accept__(visitor, **kw))
                if not isinstance(r, str):
                    r = "builtin"
                elif c == "CBare" and v == "Representor" and r == "<CBare>":
                    r = "fallback_repr"
                elif c in ("IntSchema", "StrSchema") and not r.startswith(("ext:", "other:", "via_validator:")) \
                        and r not in ("TypeError", "AttributeError", "NotImplementedError"):
                    r = "builtin"          # the representor returns plain text
                dispatch[c][v] = r
        return {"outs": outs, "access": access, "dispatch": dispatch, "render": _render()}
    finally:
        _restore(snap)


def _render():
    """the default formatter's message for a type error two levels down"""
    import d42
    from d42.validation import Formatter
    from th import PathHolder
    from d42.validation.errors import TypeValidationError
    err = TypeValidationError(PathHolder()["users"][1], "x", int)      # (the validator may have been extended)
    try:
        msg = err.format(Formatter())
    except Exception as e:  # noqa
        return "raised:" + type(e).__name__
    if isinstance(msg, _Marker):
        return str(msg)
    if "<plugin helper" in msg:
        return "ext:_format_path"
    return "default" if "_['users'][1]" in msg else "other:" + msg[:60]


def _instance(vis, v):
    if v == "Generator":
        from d42.generation import Random, RegexGenerator
        rnd = Random()
        return vis[v](rnd, RegexGenerator(rnd))
    return vis[v]()


def _cls_name(cls, t):
    for k, v in cls.items():
        if v is t:
            return k
    return t.__name__


def cases(chk, scope):
    """spec/MC_Registry.tla: the process-global tables behind register_type and
    `class E(V, extend=True)`; every history of the machine replayed on the real classes and every
    query observed afterwards, decided by spec/Trace_Registry.tla.  scope "C16": the whole alphabet,
    verdict on dispatch; scope "C03": the formatter part of the alphabet, verdict on rendering."""
    from . import core
    full = scope == "C16"
    steps = (2 if chk.tier == "quick" else 3) if full else (3 if chk.tier == "quick" else 4)
    res = chk.model_check("MC_Registry", {"constants": {"MaxSteps": str(steps),
                                                        "ActScope": '"all"' if full else '"formatter"'},
                                          "invariants": ["CompleteCustomTypeAlwaysDispatches", "BuiltinsKeepTheirVisit",
                                                         "StateIsRunOfHistory", "PrivateFormatterHelpersStayPrivate"],
                                          "properties": ["RegistrationIsLocal", "ExtensionIsLocal"]},
                          name="%s_MC_Registry" % chk.pid, dump=True)
    events = []
    share = 1.0 if (chk.tier == "quick" or not full) else 0.1
    for st in core.load_dump(res):
        if len(st["hist"]) == steps and share < 1.0 and chk.rng.random() >= share:
            continue
        ev = replay(st["hist"])
        ev.update({"id": len(events) + 1, "hist": st["hist"]})
        events.append(ev)
        chk.count("registry_histories")
    chk.require(len(events) >= (1000 if full else 100), "too few registry histories (%d)" % len(events))
    verdicts = chk.validate_events("Trace_Registry", events, name="%s_Trace_Registry" % chk.pid,
                                   extra_constants={"Scope": '"%s"' % scope})
    chk.absorb(events, verdicts, lambda e: {"registry_history": e})
    chk.sample({"registry_history": events[len(events) // 2]})
