"""Shared driver of the generate/validate machine spec/MC_Val.tla (C01, C02, C03, C08)."""
import json

from . import absmap as am
from . import core, faketape
from .common import try_abs, tla_set

SCALAR_TYPES = ["int", "float", "str", "bool", "bytes", "uuid4", "datetime", "date"]


def key(x):
    return json.dumps(x, sort_keys=True, separators=(",", ":"))


def run_machine(chk, invariants, depth, tapeset, containers=True):
    cfg = {"constants": {"Depth": str(depth), "Types": tla_set(SCALAR_TYPES),
                         "UseContainers": "TRUE" if containers else "FALSE",
                         "TapeSet": '"%s"' % tapeset},
           "invariants": invariants, "view": "View"}
    res = chk.model_check("MC_Val", cfg, dump=True)
    return res


def observed(res):
    for st in core.load_dump(res, only='phase = "obs"'):
        if st["phase"] != "obs":
            continue
        yield st["s"], st["tape"], st["g"], st["src"]


class SchemaCache:
    """abstract schema -> real schema built through the DSL (gamma), with the alpha-gamma
    round trip recorded"""

    def __init__(self, chk):
        self.chk = chk
        self.cache = {}

    def get(self, s):
        k = key(s)
        if k not in self.cache:
            try:
                real = am.g_schema(s)
            except Exception as e:      # Unrepresentable, or the real DSL refusing a declaration
                self.cache[k] = (None, "%s: %s" % (type(e).__name__, e))
                self.chk.count("schemas_not_buildable")
                if not isinstance(e, am.Unrepresentable):
                    self.chk.drift += 1
                return self.cache[k]
            try:
                back = am.a_schema(real)
            except am.Unrepresentable:
                back = None
            if back != s:
                self.chk.drift += 1
                if len(self.chk.drift_samples) < 5:
                    self.chk.drift_samples.append({"what": "alpha(gamma(schema)) differs", "model": s, "real": back})
            self.cache[k] = (real, None)
        return self.cache[k]


def real_fake(real, tape):
    """run the real generator under a tape; returns (exc, value)"""
    import d42
    with faketape.installed(tape):
        try:
            return "", d42.fake(real)
        except Exception as e:  # the exception type is the observation
            return type(e).__name__, None


def format_path(path_ops, extra=None):
    txt = "_" + "".join("[%r]" % (op.operand,) for op in path_ops)
    if extra is not None:
        txt += "[%r]" % (extra[0],)
    return txt


_PHRASES = ["must be equal to", "must be greater than or equal to", "must be less than or equal to",
            "must have exactly", "must have at least", "must have at most", "must contain only", "must contain",
            "must match pattern", "must match any of", "must be a UUID version", "must be",
            "contains extra element at index", "contains extra key", "does not exist"]


def parse_path_text(text, root):
    """`_['a'][0]...` at the start of text -> abstract path (walking root to tell keys from
    indexes); None when it cannot be read back"""
    import ast
    if not text.startswith("_"):
        return None
    i = 1
    operands = []
    while i < len(text) and text[i] == "[":
        found = None
        for j in range(i + 1, len(text)):
            if text[j] == "]":
                try:
                    found = (ast.literal_eval(text[i + 1:j]), j)
                    break
                except (ValueError, SyntaxError, MemoryError, RecursionError):
                    continue
        if found is None:
            return None
        operands.append(found[0])
        i = found[1] + 1

    class _Op:
        def __init__(self, operand):
            self.operand = operand
    _Op.__name__ = "ItemAccessor"
    try:
        return am.a_path([_Op(o) for o in operands], root)
    except am.Unrepresentable:
        return None


def message_shape(msg, root):
    """what the rendered text says about itself: noun, stating phrase, whether it uses ` at `,
    and the path read back from the text"""
    out = {"noun": msg.split(" ", 1)[0].rstrip(":") if msg else "", "phrase": "", "has_at": False, "path": [],
           "parsed": False}
    if out["noun"].startswith("Value"):
        out["noun"] = "Value"
    for ph in _PHRASES:
        if ph in msg:
            out["phrase"] = ph
            break
    head = msg.split(out["phrase"])[0] if out["phrase"] else msg
    path_text = None
    if out["noun"] in ("Element", "Key"):
        path_text = msg[len(out["noun"]) + 1:]
    elif " at _" in head:
        out["has_at"] = True
        path_text = head[head.rindex(" at _") + 4:]
    if path_text is not None:
        p = parse_path_text(path_text, root)
        if p is not None:
            out["path"] = p
            out["parsed"] = True
    # every path written anywhere in the text, whatever the wording around it
    out["paths"] = []
    at = msg.find("_[")
    while at != -1 and len(out["paths"]) < 6:
        p = parse_path_text(msg[at:], root)
        if p is not None and p not in out["paths"]:
            out["paths"].append(p)
        at = msg.find("_[", at + 2)
    return out


def observe_validate(real, v_real):
    """the real validate() on one value: everything Trace_Val needs ({"timeout": True} when a
    regular expression made the library's re.search backtrack beyond the alarm)"""
    from .common import timed
    return timed(lambda: _observe_validate(real, v_real), {"timeout": True}, seconds=8.0)


def _observe_validate(real, v_real):
    import d42
    import th
    from d42.validation import Formatter, format_result
    from d42.validation import errors as E
    ev = {"exc": "", "nerrs": 0, "eq": True, "rep": True, "errs": [], "facts": [],
          "vof": "true", "vof_lines": 0, "fmt_lines": 0, "srep": True, "serrs": [], "slocated": [], "sexc": ""}
    try:
        result = d42.validate(real, v_real)
        errors = result.get_errors()
    except Exception as e:
        ev["exc"] = type(e).__name__
        ev["eq"] = False
        ev["vof"] = "skipped"
        return ev
    ev["nerrs"] = len(errors)
    try:
        ev["eq"] = bool(real == v_real)
    except Exception as e:
        ev["eq"] = "raised " + type(e).__name__
    fmt = Formatter()
    for err in errors:
        try:
            ev["errs"].append(am.a_error(err, v_real))
        except am.Unrepresentable:
            ev["rep"] = False
        fact = {"nonempty": False, "names_path": False, "located": False,
                "msg": {"noun": "", "phrase": "", "has_at": False, "path": [], "parsed": False, "paths": []}}
        try:
            msg = err.format(fmt)
            fact["nonempty"] = isinstance(msg, str) and len(msg.strip()) > 0
            ops = list(err.path)
            extra = None
            if isinstance(err, E.MissingElementValidationError):
                extra = (err.index,)
            elif isinstance(err, E.MissingKeyValidationError):
                extra = (err.missing_key,)
            fact["names_path"] = (len(ops) == 0 and extra is None) or (format_path(ops, extra) in msg)
            fact["msg"] = message_shape(msg, v_real)
        except Exception:
            pass
        try:
            got = th.get(v_real, err.path) if len(err.path) else v_real
            fact["located"] = got is err.actual_value
        except Exception:
            fact["located"] = False
        ev["facts"].append(fact)
    if not ev["rep"]:
        ev["errs"] = []
    # the validator substitution uses (same error classes, its own visit_list / visit_dict)
    ev["srep"] = True
    ev["serrs"] = []
    ev["slocated"] = []
    ev["sexc"] = ""
    try:
        from d42.substitution import SubstitutorValidator
        sres = real.__accept__(SubstitutorValidator(), value=v_real)
        for err in sres.get_errors():
            try:
                ev["serrs"].append(am.a_error(err, v_real))
            except am.Unrepresentable:
                ev["srep"] = False
            try:
                got = th.get(v_real, err.path) if len(err.path) else v_real
                ev["slocated"].append(got is err.actual_value)
            except Exception:
                ev["slocated"].append(False)
    except Exception as e:
        ev["sexc"] = type(e).__name__
    if not ev["srep"]:
        ev["serrs"] = []
    try:
        r = d42.validate_or_fail(real, v_real)
        ev["vof"] = "true" if r is True else "returned_other"
    except d42.ValidationException as e:
        ev["vof"] = "exc"
        lines = [ln for ln in str(e).split("\n") if ln.startswith(" - ")]
        ev["vof_lines"] = len(lines)
    except Exception as e:
        ev["vof"] = "raised_" + type(e).__name__
    try:
        ev["fmt_lines"] = len(format_result(result))
    except Exception:
        ev["fmt_lines"] = -1
    return ev
