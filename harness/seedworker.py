"""Runs inside a fresh interpreter (its own PYTHONHASHSEED): for every (seed, sequence) of the
job file, seeds through Random().set_seed(k) and generates with the module-level fake(), twice.
Draws are observed by wrapping the methods of d42.generation.Random from the outside."""
import json
import os
import sys

sys.dont_write_bytecode = True
sys.path.insert(0, os.path.dirname(os.path.dirname(os.path.abspath(__file__))))


def main(job_path, out_path):
    from harness import core
    core.setup_repo_path()
    import d42
    from d42.generation import Random
    from harness import absmap as am

    draws = []

    def wrap(name, check):
        orig = getattr(Random, name)

        def wrapped(self, *a, **k):
            r = orig(self, *a, **k)
            draws.append((name, repr(a), repr(r), bool(check(r, *a))))
            return r
        setattr(Random, name, wrapped)

    wrap("random_int", lambda r, a, b: a <= r <= b)
    wrap("random_float", lambda r, a, b, p=None: a <= r <= b)
    wrap("random_choice", lambda r, seq: any(r is x or r == x for x in seq))
    wrap("random_str", lambda r, n, alphabet: len(r) == n and all(c in alphabet for c in r))

    jobs = json.load(open(job_path))
    if os.environ.get("VERIF_JOB_ORDER") == "reverse":
        jobs = jobs[::-1]
    def seed_of(job):
        k = job["seed"]
        return {"int": k, "str": "release-%d" % k, "bytes": b"release-%d" % k, "float": k + 0.5}[job.get("seed_kind", "int")]

    def unrelated_work(n):
        """library use that has nothing to do with the seeded run that follows"""
        from d42.generation import Generator, RegexGenerator
        rnd = Random()
        if n % 3 == 0:
            # a different customisation every time: were it to leak into the shared generator, every
            # later run would see another alphabet
            k = (n // 3) % 20
            RegexGenerator(rnd, max_repeat=2 + k % 3,
                           alphabet={"digits": "abcdefghijklmnopqrstuvwxyz"[k:k + 6], "word": "-+*"[k % 3],
                                     "letters": "xyz"[k % 3:] + "q"})
        elif n % 3 == 1:
            Generator(rnd, RegexGenerator(rnd, max_repeat=3))
            d42.validate(d42.schema.list(d42.schema.int), [1, "a"])
            # generations that end in an exception, from inside nested containers
            for bad in (d42.schema.list(d42.schema.float.min(0.11).max(0.12).precision(1)).len(2),
                        d42.schema.dict({"a": d42.schema.list(d42.schema.str.alphabet("")).len(1)}),
                        d42.schema.list(d42.schema.list(d42.schema.str.regex("[^ -~]")).len(1)).len(1)):
                try:
                    d42.fake(bad)
                except Exception:
                    pass
        else:
            d42.substitute(d42.schema.dict({"a": d42.schema.int}), {"a": 1})
            repr(d42.schema.str.regex(r"[^a]\d"))

    # two passes over the whole job list: the first with nothing else going on in the process (the
    # reference), the second with unrelated library use before every job -- whatever that leaves
    # behind (a cache, a counter, a shared table) is there for every later job of the pass
    def build(s):
        if "x" not in s:
            return am.g_schema(s)
        if s["x"] == "add":
            return am.g_schema(s["a"]) + am.g_schema(s["b"])
        if s["x"] == "make_required":
            from d42.utils import make_required
            return make_required(am.g_schema(s["a"]))
        return d42.substitute(am.g_schema(s["a"]), am.g_value(s["b"]))

    def one_run(job):
        schemas = [build(s) for s in job["seq"]]
        del draws[:]
        Random().set_seed(seed_of(job))
        vals = []
        for s in schemas:
            try:
                vals.append(repr(d42.fake(s)))
            except Exception as e:
                vals.append("raised " + type(e).__name__)
        return vals, list(draws)

    first = {job["id"]: one_run(job) for job in jobs}
    results = []
    for job in jobs:
        unrelated_work(job["id"])
        runs = [first[job["id"]], one_run(job)]
        results.append({"id": job["id"], "first": runs[0][0], "second": runs[1][0],
                        "draws_ok": all(d[3] for d in runs[0][1]) and
                        [d[:3] for d in runs[0][1]] == [d[:3] for d in runs[1][1]],
                        "ndraws": len(runs[0][1]),
                        "draws": [d[:3] for d in runs[0][1]]})
    json.dump({"hashseed": os.environ.get("PYTHONHASHSEED", ""), "results": results}, open(out_path, "w"))


if __name__ == "__main__":
    main(sys.argv[1], sys.argv[2])
