"""Deep random driver (code -> spec): abstract schemas nested deeper than the exhaustive
universes, built through the real DSL, exercised with the *real* random module (seeded by
VERIF_SEED) and with scripted tapes; the recorded events go through the same trace specs.
The generator only produces inputs; every verdict is TLC's."""
from . import absmap as am

A, B, C = 97, 98, 99


def VInt(n): return {"k": "int", "n": n}
def VFloat(q): return {"k": "float", "q": q, "sp": "fin"}
def VStr(s): return {"k": "str", "s": list(s)}


ELL = {"k": "ellipsis"}
STR0 = {"t": "str", "value": [], "len": [], "min_len": [], "max_len": [], "alphabet": [], "substr": [], "pattern": []}


def _opt(rng, p, make):
    return [make()] if rng.random() < p else []


def rand_scalar(rng):
    t = rng.choice(["int", "int", "str", "str", "float", "bool", "none", "bytes", "uuid4", "datetime", "date"])
    if t == "none":
        return {"t": "none"}
    if t in ("bool", "bytes", "uuid4", "datetime", "date"):
        val = {"bool": lambda: {"k": "bool", "tf": rng.random() < 0.5},
               "bytes": lambda: {"k": "bytes", "bs": [A] * rng.randrange(3)},
               "uuid4": lambda: {"k": "uuid", "ver": 4, "id": rng.randrange(3)},
               "datetime": lambda: {"k": "datetime", "dt": rng.randrange(3)},
               "date": lambda: {"k": "date", "d": rng.randrange(3)}}[t]
        return {"t": t, "value": _opt(rng, 0.5, val)}
    if t == "int":
        lo = rng.randrange(-5, 10)
        s = {"t": "int", "value": [], "min": [], "max": []}
        r = rng.random()
        if r < 0.25:
            s["value"] = [VInt(lo)]
        else:
            if rng.random() < 0.6:
                s["min"] = [VInt(lo)]
            if rng.random() < 0.6:
                s["max"] = [VInt(lo + rng.randrange(0, 8))]
        return s
    if t == "float":
        lo = 25 * rng.randrange(-4, 8)
        s = {"t": "float", "value": [], "min": [], "max": [], "precision": []}
        r = rng.random()
        if r < 0.25:
            s["value"] = [VFloat(lo)]
        else:
            if rng.random() < 0.7:
                s["min"] = [VFloat(lo)]
            if rng.random() < 0.7:
                s["max"] = [VFloat(lo + 25 * rng.randrange(1, 8))]
        if rng.random() < 0.4:
            s["precision"] = [VInt(rng.choice([1, 2]))]
        return s
    # str
    s = {"t": "str", "value": [], "len": [], "min_len": [], "max_len": [], "alphabet": [], "substr": [],
         "pattern": []}
    r = rng.random()
    if r < 0.2:
        s["value"] = [VStr([rng.choice([A, B, C]) for _ in range(rng.randrange(4))])]
        return s
    if r < 0.3:
        body = {"r": "class", "neg": False, "items": [{"ci": "range", "lo": A, "hi": C}]}
        s["pattern"] = [{"k": "pat", "rx": {"r": "rep", "body": body, "lo": rng.randrange(3),
                                            "hi": rng.choice([-1, 3]), "lazy": False}}]
        if rng.random() < 0.5:
            # a random program of the supported regex grammar (the constructors of spec/MC_Regex.tla)
            from . import c09
            for _ in range(20):
                rx = c09.rand_rx(rng, rng.randrange(1, 5))
                if rx is not None and not _has_uns(rx) and c09.worst_len(rx, 32) <= 70:
                    s["pattern"] = [{"k": "pat", "rx": rx}]
                    break
        return s
    if rng.random() < 0.5:
        s["alphabet"] = [VStr([A, B, C][: rng.randrange(1, 4)])]
    if rng.random() < 0.3:
        s["substr"] = [VStr([A] * rng.randrange(1, 3))]
    r = rng.random()
    n = rng.randrange(0, 5)
    if r < 0.25:
        s["len"] = [VInt(n + len(s["substr"][0]["s"]) if s["substr"] else n)]
    elif r < 0.5:
        s["min_len"] = [VInt(n)]
    elif r < 0.7:
        s["max_len"] = [VInt(n + 2)]
    elif r < 0.85:
        s["min_len"] = [VInt(n)]
        s["max_len"] = [VInt(n + rng.randrange(0, 4))]
    return s


def rand_plain_scalar(rng, hashable_only=False):
    k = rng.choice(["none", "bool", "int", "int", "float", "str", "str", "bytes", "uuid", "datetime", "date"])
    if k == "none":
        return {"k": "none"}
    if k == "bool":
        return {"k": "bool", "tf": rng.random() < 0.5}
    if k == "int":
        return VInt(rng.choice([-5, -1, 0, 1, 2, 3, 7, 12, 2000]))
    if k == "float":
        return VFloat(25 * rng.randrange(-4, 9))
    if k == "str":
        return VStr([rng.choice([A, B, C, 122]) for _ in range(rng.randrange(5))])
    if k == "bytes":
        return {"k": "bytes", "bs": [rng.choice([A, B]) for _ in range(rng.randrange(4))]}
    if k == "uuid":
        return {"k": "uuid", "ver": 4, "id": rng.randrange(2)}
    if k == "datetime":
        return {"k": "datetime", "dt": rng.choice([0, 1, 2, 1000, 2001])}      # (>= 1000: timezone-aware)
    return {"k": "date", "d": rng.randrange(3)}


def rand_plain_value(rng, depth):
    """a random value built from None, bool, int, float, str, bytes, v4 UUID, datetime, date, lists
    and dicts, nested up to `depth` containers deep"""
    if depth <= 0 or rng.random() < 0.3:
        return rand_plain_scalar(rng)
    if rng.random() < 0.5:
        return {"k": "list", "items": [rand_plain_value(rng, depth - 1) for _ in range(rng.randrange(0, 5))]}
    pairs = []
    for _ in range(rng.randrange(0, 5)):
        pairs.append({"key": rand_plain_scalar(rng), "val": rand_plain_value(rng, depth - 1)})
    return {"k": "dict", "pairs": pairs}


def inject(rng, v, member, as_key_ok):
    """v with `member` put at one random position (an element, a dict value or -- when hashable -- a
    dict key); the value itself when it has no container"""
    import copy
    v = copy.deepcopy(v)
    spots = []

    def walk(x):
        if x["k"] == "list":
            spots.append(("append", x))
            for i, it in enumerate(x["items"]):
                spots.append(("item", x, i))
                walk(it)
        elif x["k"] == "dict":
            spots.append(("newkey", x))
            for i, p in enumerate(x["pairs"]):
                spots.append(("val", x, i))
                if as_key_ok:
                    spots.append(("key", x, i))
                walk(p["val"])
    walk(v)
    if not spots:
        return member
    sp = rng.choice(spots)
    if sp[0] == "append":
        sp[1]["items"].insert(rng.randrange(len(sp[1]["items"]) + 1), member)
    elif sp[0] == "item":
        sp[1]["items"][sp[2]] = member
    elif sp[0] == "val":
        sp[1]["pairs"][sp[2]]["val"] = member
    elif sp[0] == "key":
        sp[1]["pairs"][sp[2]]["key"] = member
    else:
        if as_key_ok and rng.random() < 0.5:
            sp[1]["pairs"].append({"key": member, "val": VInt(1)})
        else:
            sp[1]["pairs"].append({"key": VStr([122, 122, 122]), "val": member})
    return v


def _has_uns(rx):
    """constructs the generator is documented not to support (it refuses them loudly: C09)"""
    k = rx["r"]
    if k == "uns":
        return True
    if k == "class":
        return any(i.get("ci") == "cat" and i["cat"] in ("space", "nspace", "ndigit", "nword") for i in rx["items"])
    if k in ("group", "rep"):
        return _has_uns(rx["body"])
    if k == "alt":
        return any(_has_uns(x) for x in rx["alts"])
    if k == "seq":
        return any(_has_uns(x) for x in rx["parts"])
    return False


def rand_schema(rng, depth):
    if depth <= 0 or rng.random() < 0.25:
        return rand_scalar(rng)
    kind = rng.choice(["list_typed", "list_elems", "dict", "dict", "any", "alias", "custom"])
    if kind == "list_typed":
        s = {"t": "list", "type": [rand_schema(rng, depth - 1)], "elems": [], "len": [], "min_len": [], "max_len": []}
        r = rng.random()
        if r < 0.3:
            s["len"] = [VInt(rng.randrange(0, 3))]
        elif r < 0.6:
            s["min_len"] = [VInt(rng.randrange(0, 2))]
            s["max_len"] = [VInt(rng.randrange(2, 4))]
        else:
            s["max_len"] = [VInt(rng.randrange(0, 3))]
        return s
    if kind == "list_elems":
        k = rng.randrange(0, 3)
        conc = [rand_schema(rng, depth - 1) for _ in range(k)]
        form = rng.choice(["exact", "head", "tail", "body"]) if k else rng.choice(["exact", "tail"])
        elems = {"exact": conc, "head": conc + [ELL], "tail": [ELL] + conc, "body": [ELL] + conc + [ELL]}[form]
        s = {"t": "list", "type": [], "elems": [elems], "len": [], "min_len": [], "max_len": []}
        if form != "exact" and rng.random() < 0.4:
            s["len"] = [VInt(k + rng.randrange(0, 3))]
        elif form != "exact" and rng.random() < 0.3:
            s["max_len"] = [VInt(k + rng.randrange(0, 3))]
        return s
    if kind == "dict":
        keys = []
        for name in rng.sample([VStr([A]), VStr([B]), VStr([C]), VInt(1), {"k": "none"}], rng.randrange(0, 4)):
            keys.append({"key": name, "val": rand_schema(rng, depth - 1), "opt": rng.random() < 0.35})
        if rng.random() < 0.3:
            keys.insert(rng.randrange(len(keys) + 1), {"key": ELL, "val": ELL, "opt": False})
        return {"t": "dict", "keys": [keys] if (keys or rng.random() < 0.7) else []}
    if kind == "any":
        alts = [rand_schema(rng, depth - 1) for _ in range(rng.randrange(1, 4))]
        flat = []
        for a in alts:
            if a["t"] == "any" and a["types"]:
                flat += a["types"][0]
            else:
                flat.append(a)
        return {"t": "any", "types": [flat]}
    if kind == "alias":
        return {"t": "alias", "name": "T", "type": rand_schema(rng, depth - 1)}
    return {"t": "custom", "inner": rand_schema(rng, depth - 1)}


def build(rng, depth):
    """(abstract schema, real schema) or None when the DSL refuses the combination"""
    s = rand_schema(rng, depth)
    try:
        real = am.g_schema(s)
        back = am.a_schema(real)
    except am.Unrepresentable:
        return None
    except Exception as e:
        if type(e).__name__ == "DeclarationError":
            return None
        raise
    if back != s:
        return None          # e.g. a dict literal collapsed two equal keys: not the schema we described
    # (the description as read back: equal to s for Python, and with the value kinds alpha gives --
    # `0 == False` and `1 == 1.0` are equal dict values and different JSON)
    return back, real


def schemas(rng, n, depth):
    out = []
    tries = 0
    while len(out) < n and tries < n * 20:
        tries += 1
        b = build(rng, depth)
        if b is not None:
            out.append(b)
    return out


# Real binary floats (code -> spec only: the specification's numbers are exact, these are not).
# Decimal ties that no binary float hits exactly, sums that are not what they print, magnitudes whose
# scaled value overflows: what one rounding route and another disagree about.
TIE_VALUES = [(2.675, 2), (6.35, 1), (1.115, 2), (5.825, 2), (7.825, 2), (0.37155, 4), (1.005, 2), (0.15, 1),
              (0.25, 1), (0.35, 1), (8.35, 1), (-1.115, 2), (0.1 + 0.2, 1), (2.5, 1), (3.45, 1), (1e300, 10),
              (123456789.125, 2), (0.07, 2), (0.29, 2)]
TIE_BOUNDS = [("min", 0.065, 2), ("min", 0.07, 2), ("max", 0.285, 2), ("max", 0.29, 2), ("min", 3.141, 2),
              ("max", 1.005, 2), ("min", 0.14, 2), ("max", 0.57, 2), ("min", 0.28, 2), ("max", 1.13, 2)]


def real_float_schemas():
    """[(description, schema)] built through the DSL"""
    import d42
    out = []

    def add(text, make):
        try:
            out.append((text, make()))
        except Exception as e:
            if type(e).__name__ != "DeclarationError":      # a refused declaration is not a case
                raise
    for v, p in TIE_VALUES:
        add("schema.float(%r).precision(%d)" % (v, p), lambda: d42.schema.float(v).precision(p))
        add("schema.float.precision(%d)(%r)" % (p, v), lambda: d42.schema.float.precision(p)(v))
    for which, b, p in TIE_BOUNDS:
        add("schema.float.%s(%r).precision(%d)" % (which, b, p), lambda: getattr(d42.schema.float, which)(b).precision(p))
        add("schema.float.precision(%d).%s(%r)" % (p, which, b), lambda: getattr(d42.schema.float.precision(p), which)(b))
    add("schema.float.min(0.065).max(0.285).precision(2)", lambda: d42.schema.float.min(0.065).max(0.285).precision(2))
    return out
