"""C07  Schemas are immutable values and all operations on them are pure.

(A) spec/D42.tla, the top-level machine over (pool, heap, hist): TLC checks the action
properties SchemasAreImmutable and OperationsArePure exhaustively for short histories.
(B) behaviours of the machine -- every history of MaxSteps operations (exhaustive) and longer
ones from TLC's simulator -- are stepped through real d42 objects.  After every step every
pooled real schema is compared with the snapshot taken when it was created (repr, verdicts
on a fixed probe set, fake under fixed tapes, props), and every caller-owned container with
the caller's own copy; at the end the earlier operations are repeated.
(C) the logged steps are validated by spec/Trace_D42.tla, which takes the same action of
D42.tla for every logged operation, so the spec's pool evolves alongside the real one.
"""
import copy
import glob
import os
import re

from . import absmap as am
from . import core, tlaval, tlc, valgen
from .common import try_abs, safe_repr

PROBES = [None, True, 0, 1, 7, "ab", "a", "", [], [1], [1, "ab"], [1, "ab", 7], [[]], {}, {"a": 1},
          {"a": 1, "b": [1]}, {"a": "x"}, {"zz": 7}, [{"a": 1}], 1.5]
TAPES = [["lo"], ["hi"]]


def snapshot(s):
    import d42
    out = [safe_repr(s)]
    verdicts = []
    for p in PROBES:
        try:
            verdicts.append(not d42.validate(s, p).has_errors())
        except Exception as e:
            verdicts.append(type(e).__name__)
    out.append(tuple(verdicts))
    for t in TAPES:
        exc, v = valgen.real_fake(s, t)
        out.append((exc, safe_repr(v)))
    ok, a = try_abs(am.a_schema, s)
    out.append(valgen.key(a) if ok else None)
    return out


class World:
    """real objects stepped through one behaviour"""

    def __init__(self):
        self.pool = []
        self.snaps = []
        self.heap = []       # the objects handed to d42
        self.shadow = []     # the caller's own independent record of what they should contain
        self.log = []        # (op, outcome summary) for the repeat check

    def heap_obj(self, spec):
        import d42
        hk = spec["hk"]
        if hk == "slist":
            return [... if i == 0 else self.pool[i - 1] for i in spec["items"]]
        if hk == "sdict":
            out = {}
            for pr in spec["pairs"]:
                if pr["ref"] == 0:
                    out[...] = ...
                else:
                    k = am.g_value(pr["key"])
                    out[d42.optional(k) if pr["opt"] else k] = d42.schema.int if pr["ref"] == -1 else self.pool[pr["ref"] - 1]
            return out
        return am.g_value(spec["v"])

    def same_as_shadow(self, idx):
        a, b = self.heap[idx], self.shadow[idx]
        if type(a) is not type(b):
            return False
        if isinstance(a, list):
            return len(a) == len(b) and all((x is y) or (not hasattr(x, "props") and x == y) for x, y in zip(a, b))
        if isinstance(a, dict):
            if list(a.keys()) != list(b.keys()):
                return False
            return all((a[k] is b[k]) or (not hasattr(a[k], "props") and a[k] == b[k]) for k in a)
        return a == b

    def step(self, op):
        import d42
        from d42.utils import from_native, make_required
        kind = op["op"]
        out = "ok"
        new = None
        try:
            if kind == "bare":
                new = am.g_bare(op["t"])
            elif kind == "refine":
                new = am.g_call(self.pool[op["i"] - 1], op["c"])
            elif kind == "new_slist":
                obj = self.heap_obj({"hk": "slist", "items": op["items"]})
                self.heap.append(obj)
                self.shadow.append(list(obj))
            elif kind == "new_sdict":
                obj = self.heap_obj({"hk": "sdict", "pairs": op["pairs"]})
                self.heap.append(obj)
                self.shadow.append(dict(obj))
            elif kind == "new_value":
                self.heap.append(am.g_value(op["v"]))
                self.shadow.append(am.g_value(op["v"]))
            elif kind == "list_from":
                new = d42.schema.list(self.heap[op["h"] - 1])
            elif kind == "dict_from":
                new = d42.schema.dict(self.heap[op["h"] - 1])
            elif kind == "from_native":
                new = from_native(self.heap[op["h"] - 1])
            elif kind == "substitute":
                new = d42.substitute(self.pool[op["i"] - 1], self.heap[op["h"] - 1])
            elif kind == "union":
                new = self.pool[op["i"] - 1] | self.pool[op["j"] - 1]
            elif kind == "add":
                new = self.pool[op["i"] - 1] + self.pool[op["j"] - 1]
            elif kind == "make_required":
                new = make_required(self.pool[op["i"] - 1])
            elif kind == "make_required_key":
                new = make_required(self.pool[op["i"] - 1], ["a"])
            elif kind == "alias":
                new = d42.schema.alias("T", self.pool[op["i"] - 1])
            elif kind == "validate":
                r = d42.validate(self.pool[op["i"] - 1], self.heap[op["h"] - 1])
                out = "errors" if r.has_errors() else "ok"
            elif kind == "represent":
                d42.represent(self.pool[op["i"] - 1])
                repr(self.pool[op["i"] - 1])
            elif kind == "fake":
                exc, v = valgen.real_fake(self.pool[op["i"] - 1], op["tape"])
                out = "raised" if exc else "ok"
            elif kind == "eq":
                a, b = self.pool[op["i"] - 1], self.pool[op["j"] - 1]
                e = bool(a == b)
                if bool(a != b) == e:
                    out = "inconsistent"
                else:
                    out = "equal" if e else "unequal"
            elif kind == "mutate":
                for target in (self.heap[op["h"] - 1], self.shadow[op["h"] - 1]):
                    if isinstance(target, list):
                        if op["edit"] == "append":
                            target.append(... if self._is_schema_container(op["h"] - 1) else 7)
                        elif target:
                            target.pop()
                    else:
                        if op["edit"] == "append":
                            if not self._is_schema_container(op["h"] - 1):
                                target["z"] = 7
                        elif target:
                            target.pop(list(target.keys())[-1])
        except BaseException as e:  # noqa
            out = type(e).__name__
        if new is not None:
            self.pool.append(new)
            self.snaps.append(snapshot(new))
        changed = []
        for i, s in enumerate(self.pool[: len(self.snaps)]):
            now = snapshot(s)
            if now != self.snaps[i]:
                changed.append(i + 1)
                self.snaps[i] = now          # report the step that caused it, once
        # what a schema does must not depend on how (or from which already used parts) it was
        # built: compare the newest schema with an equal one rebuilt from scratch
        if new is not None and not changed:
            ok, a = try_abs(am.a_schema, new)
            if ok:
                try:
                    fresh = am.g_schema(a[0])
                    # (only when the DSL can write that very structure: substitution can nest a union
                    # inside a union, which a declaration would flatten into another, equal-meaning schema)
                    if am.a_schema(fresh) == a[0] and snapshot(fresh) != self.snaps[-1]:
                        changed.append(len(self.pool))
                except Exception:
                    pass
        heap_changed = [] if kind == "mutate" else [i + 1 for i in range(len(self.heap)) if not self.same_as_shadow(i)]
        return out, changed, heap_changed

    def _is_schema_container(self, idx):
        obj = self.shadow[idx]
        vals = obj if isinstance(obj, list) else list(obj.values())
        return any(hasattr(x, "props") or x is ... for x in vals) or self.kinds[idx] != "value"


def interfere(variant):
    """unrelated operations executed between two runs of the same history: conversions,
    validations and generations over many distinct values, in two different orders"""
    import d42
    from d42.utils import from_native
    specials = [1.0, 0.0, True, False, 1, 0, "", "ab"]
    if variant:
        specials = specials[::-1]
    for x in specials:
        from_native(x)
    for n in range(1000, 1160):
        from_native(n)
    for x in specials:
        s = from_native([x])
        d42.validate(s, [x])
    d42.validate(d42.schema.dict({"a": d42.schema.int, ...: ...}), {"a": 1, "b": 2})
    d42.fake(d42.schema.list(d42.schema.str.len(1, 2)).len(2))
    try:
        d42.substitute(d42.schema.dict({"a": d42.schema.int}), {"a": "x"})
    except Exception:
        pass
    # other objects of the library's own classes, built with non-default options and thrown away
    from d42.generation import Generator, Random, RegexGenerator
    rnd = Random()
    _POISON[0] += 1
    k = _POISON[0] % 20
    Generator(rnd, RegexGenerator(rnd, max_repeat=2 + k % 3,
                                  alphabet={"digits": "abcdefghijklmnopqrstuvwxyz"[k:k + 6], "word": "-+*"[k % 3],
                                            "letters": "xyz"[k % 3:] + "q"}))
    # calls that end in an exception escaping from the middle of a traversal (a custom type whose
    # hooks raise, as an alternative of any / an element / a value of a key)
    if not variant:
        return
    # generations that end in an exception, from inside nested containers
    for unsat in (d42.schema.list(d42.schema.float.min(0.11).max(0.12).precision(1)).len(2),
                  d42.schema.dict({"a": d42.schema.list(d42.schema.str.alphabet("")).len(1)}),
                  d42.schema.list(d42.schema.list(d42.schema.str.regex("[^ -~]")).len(1)).len(1)):
        try:
            d42.fake(unsat)
        except Exception:
            pass
    bad = _raising_custom()
    for sch, val in ((d42.schema.any(d42.schema.int, bad), None),
                     (d42.schema.list([d42.schema.int, bad]), ["x", 1]),
                     (d42.schema.dict({"a": d42.schema.int, "b": bad}), {"a": "x", "b": 1})):
        for call in (lambda: d42.validate(sch, val), lambda: d42.fake(sch), lambda: repr(sch),
                     lambda: d42.substitute(sch, val), lambda: sch == val):
            try:
                call()
            except Exception:
                pass


_RAISING = None
_POISON = [0]


def _raising_custom():
    global _RAISING
    if _RAISING is None:
        from d42.custom_type import CustomSchema, Props, register_type

        class VerifRaising(CustomSchema[Props]):
            def __validate__(self, visitor, **kwargs):
                raise AttributeError("sloppy custom type")

            def __generate__(self, visitor, **kwargs):
                raise KeyError("sloppy custom type")

            def __represent__(self, visitor, **kwargs):
                raise ValueError("sloppy custom type")

            def __substitute__(self, visitor, **kwargs):
                raise LookupError("sloppy custom type")

        register_type("verif_raising", VerifRaising)
        _RAISING = VerifRaising
    return _RAISING()


def battery():
    """A fixed set of operations on freshly built equal inputs; the tuple of their outputs must be
    the same whenever it is taken ("repeating an operation on equal inputs gives equal results
    regardless of what was executed in between")."""
    import d42
    from d42.utils import from_native, make_required, rollout
    from . import faketape
    s = d42.schema
    out = []

    def rec(f):
        try:
            out.append(repr(f()))
        except Exception as e:  # noqa
            out.append("raised " + type(e).__name__)
    gens = [s.str.regex(r"\d\w."), s.str.regex(r"[^a]x[a-c]{2}"), s.str.regex(r"(?:ab|c)+\d?"), s.str.alphabet("xyz").len(3),
            s.str.contains("ab").len(4), s.str, s.int, s.int.min(3), s.float.min(0.25).precision(2), s.bool, s.bytes,
            s.list(s.int).len(2), s.list([s.int(1), ...]).len(3), s.dict({"a": s.int, d42.optional("b"): s.str}),
            s.any(s.int, s.str("x")), s.alias("T", s.int.max(5))]
    untouched = True
    for g in gens:
        before = (repr(g), repr(g.props))
        for tape in (["lo"], ["hi"], ["lo1", "hi1"]):
            def run(g=g, tape=tape):
                with faketape.installed(tape):
                    return d42.fake(g)
            rec(run)
        rec(lambda g=g: repr(g))
        untouched = untouched and (repr(g), repr(g.props)) == before        # generating is an observer
    user = s.dict({"id": s.int.min(1), "name": s.str.len(1, 5), "tags": s.list(s.str), "x": s.any(s.int, s.none)})
    bad_user = {"id": 0, "name": "", "tags": [1, 2], "x": "q", "extra": 1}
    pair = s.list([s.int, s.str])
    import collections
    import copy
    dd = collections.defaultdict(int, {"id": 3})
    od = collections.OrderedDict([("tags", []), ("id", 1)])
    for sch, val in ((user, bad_user), (pair, ["a", 1, 2]), (s.any(user, pair), bad_user), (s.list(user), [bad_user, {}]),
                     (s.float(1.0), True), (s.bool(True), 1.0), (s.int(1), 1.0), (user, dd), (s.list(user), [dd, od]),
                     (s.dict({"k": s.dict({d42.optional("z"): s.int, "y": s.int})}), {"k": collections.defaultdict(list)})):
        val_before = (copy.deepcopy(val), repr(val))
        sch_before = repr(sch)
        rec(lambda sch=sch, val=val: [type(e).__name__ for e in d42.validate(sch, val).get_errors()])
        rec(lambda sch=sch, val=val: d42.validate_or_fail(sch, val))
        rec(lambda sch=sch, val=val: sch == val)
        rec(lambda sch=sch, val=val: d42.substitute(sch, val))
        # neither the value nor the schema may look different after having been validated / substituted
        untouched = untouched and (val, repr(val)) == val_before and repr(sch) == sch_before
    for v in (True, 1, 1.0, False, 0, 0.0, "", b"", [True, 1.0], {"k": 1.0, "j": True}):
        rec(lambda v=v: from_native(v))
    rec(lambda: make_required(user, ["id"]))
    rec(lambda: user + s.dict({"y": s.int}))
    rec(lambda: s.int | s.str | s.none)
    rec(lambda: rollout({"a.b": 1, "a.c": 2, "d": 3}))
    rec(lambda: rollout({"a/b": 1, "a.b": 2}, separator="/"))
    rec(lambda: rollout({"a/b": 1, "a.b": 2}))
    # operators and helpers on fresh operands of every dict flavour: no operand may look different
    # afterwards (what it prints, what it accepts, what it iterates)
    flavours = [lambda: s.dict, lambda: s.dict({}), lambda: s.dict({...: ...}), lambda: s.dict({"a": s.int}),
                lambda: s.dict({d42.optional("a"): s.int, "b": s.str}), lambda: s.dict({"a": s.int, ...: ...}),
                lambda: s.dict({...: ..., "a": s.int}), lambda: s.dict({1: s.none, d42.optional(None): s.bool})]

    def look(x):
        return (repr(x), [repr(k) for k in x], x == {}, x == {"a": 1}, x == {"a": 1, "zz": 2}, x == {"b": "q"})
    pure = True
    _CALLS[0] += 1
    for mk_a in (flavours if _CALLS[0] % 25 == 1 else []):       # (every 25th battery: it is the slow part)
        for mk_b in flavours:
            a, b = mk_a(), mk_b()
            before = (look(a), look(b))
            for f in (lambda: a + b, lambda: a | b, lambda: make_required(a), lambda: make_required(a, ["a"]),
                      lambda: make_required(a, []), lambda: d42.substitute(a, {"a": 1}), lambda: d42.fake(a),
                      lambda: s.list([a, b]), lambda: s.any(a, b), lambda: s.alias("T", a), lambda: a["a"]):
                try:
                    f()
                except Exception:
                    pass
            if (look(a), look(b)) != before:
                pure = False
    out.append("operands unchanged: %s" % pure)
    PURE[0] = PURE[0] and pure and untouched
    return tuple(out)


PURE = [True]
_CALLS = [0]


_BATTERY = []


def battery_repeats():
    """TRUE when the battery gives what it gave the last time it was taken in this process"""
    PURE[0] = True
    now = battery()
    same = ((not _BATTERY) or _BATTERY[-1] == now) and PURE[0]
    del _BATTERY[:]
    _BATTERY.append(now)
    return same


def replay(hist):
    """returns the event list of one behaviour"""
    if any(op["op"] in ("from_native", "substitute", "validate") for op in hist):
        interfere(0)
    w = World()
    w.kinds = []
    events = []
    for op in hist:
        if op["op"] == "new_slist":
            w.kinds.append("slist")
        elif op["op"] == "new_sdict":
            w.kinds.append("sdict")
        elif op["op"] == "new_value":
            w.kinds.append("value")
        out, changed, heap_changed = w.step(op)
        pool_abs = []
        for s in w.pool:
            ok, a = try_abs(am.a_schema, s)
            pool_abs.append(a if ok else [])
        ev = {"op": op["op"], "t": op.get("t", ""), "i": op.get("i", 0), "j": op.get("j", 0), "h": op.get("h", 0),
              "c": op.get("c", {"m": "none", "a": []}), "items": op.get("items", []), "pairs": op.get("pairs", []),
              "v": op.get("v", {"k": "none"}), "tape": op.get("tape", ["lo"]), "edit": op.get("edit", ""),
              "out": out, "changed": changed, "heap_changed": heap_changed, "repeat_ok": True,
              "pool_abs": pool_abs}
        events.append(ev)
    # repeat: a second world replays the same history after unrelated work has been done
    # ("regardless of what was executed in between"); outcomes and results must coincide
    if any(op["op"] in ("from_native", "substitute", "validate") for op in hist):
        interfere(1)
    w2 = World()
    w2.kinds = list(w.kinds)
    same = True
    w2.kinds = []
    for op, ev in zip(hist, events):
        if op["op"] == "new_slist":
            w2.kinds.append("slist")
        elif op["op"] == "new_sdict":
            w2.kinds.append("sdict")
        elif op["op"] == "new_value":
            w2.kinds.append("value")
        out2, _, _ = w2.step(op)
        if out2 != ev["out"]:
            same = False
    if len(w2.pool) != len(w.pool):
        same = False
    else:
        for a, b in zip(w.pool, w2.pool):
            try:
                if not (a == b) or (a != b) or safe_repr(a) != safe_repr(b):
                    same = False
            except Exception:
                same = False
    if events:
        events[-1]["repeat_ok"] = same
    return events


_LAST_STATE = re.compile(r"STATE_\d+ ==\s*\n((?:/\\ .*\n(?:   .*\n)*)+)")


def simulated_behaviours(chk, n, depth, consts):
    d = tlc.workdir("C07_simfiles")
    cfg = {"spec": "Spec", "constants": consts, "properties": ["SchemasAreImmutable", "OperationsArePure"]}
    res = tlc.run("D42", cfg, "C07_sim", simulate="file=%s/tr,num=%d" % (d, n), depth=depth, workers=1,
                  seed=chk.seed + 1)
    if res.error:
        raise core.MachineryFailure("TLC simulation failed: %s" % res.error)
    chk.mc_runs.append({"module": "D42", "mode": "simulate", "behaviours": n, "depth": depth,
                        "violated": res.violated})
    if res.violated:
        chk.failures.append(("model:" + res.violated, None, {"replay": chk.write_replay(
            {"kind": "model_counterexample", "tlc_output_tail": res.out.splitlines()[-60:]})}))
    hists = []
    for path in sorted(glob.glob(os.path.join(d, "tr_*"))):
        text = open(path).read()
        idx = text.rfind("STATE_")
        chunk = text[idx:]
        chunk = chunk[chunk.index("==") + 2:]
        chunk = chunk.split("=====")[0].strip()
        st = tlaval.parse_state(chunk)
        hists.append(st["hist"])
    return hists


def describe(e):
    return {"behaviour": e.get("behaviour"), "step": e.get("step"), "history": e.get("history"), "op": e["op"], "out": e["out"],
            "changed_schemas": e["changed"], "changed_caller_values": e["heap_changed"], "repeat_ok": e["repeat_ok"]}


def main(chk):
    core.setup_repo_path()
    quick = chk.tier == "quick"
    consts = dict(tlc.dev_constants())
    # (A) exhaustive, history hidden from the fingerprint
    steps_mc = 5 if quick else 6
    cfg = {"spec": "Spec", "constants": {"MaxPool": "3", "MaxHeap": "2", "MaxSteps": str(steps_mc), "Narrow": "FALSE"},
           "properties": ["SchemasAreImmutable", "OperationsArePure"], "view": "ViewNoHist"}
    chk.model_check("D42", cfg)
    # (B1) every history of exactly `steps_ex` operations
    steps_ex = 3 if quick else 4
    cfg = {"spec": "Spec", "constants": {"MaxPool": "3", "MaxHeap": "2", "MaxSteps": str(steps_ex), "Narrow": "FALSE"}}
    res = chk.model_check("D42", cfg, name="C07_D42_hist", dump=True)
    hists = [st["hist"] for st in core.load_dump(res) if len(st["hist"]) == steps_ex]
    chk.count("histories_of_the_machine", len(hists))
    if len(hists) > 25000:
        # TLC has checked the action properties on all of them; a seeded sample is stepped on real objects
        hists = chk.rng.sample(hists, 25000)
    chk.count("exhaustive_histories", len(hists))
    # (B2) longer behaviours from the simulator
    nsim, depth = (250, 12) if quick else (1500, 14)
    c = dict(consts, MaxPool="6", MaxHeap="3", MaxSteps=str(depth), Narrow="FALSE")
    sim = simulated_behaviours(chk, nsim, depth + 1, c)
    c = dict(consts, MaxPool="5", MaxHeap="3", MaxSteps=str(depth), Narrow="TRUE")
    sim += simulated_behaviours(chk, nsim, depth + 1, c)
    chk.count("simulated_histories", len(sim))
    chk.require(len(hists) >= 500 and len(sim) >= nsim, "too few behaviours (%d, %d)" % (len(hists), len(sim)))
    events = []
    nb = 0
    battery_repeats()          # the reference outputs, before anything else has been done in this process
    for hist in hists + sim:
        nb += 1
        evs = replay(hist)
        events.append({"op": "reset", "t": "", "i": 0, "j": 0, "h": 0, "c": {"m": "none", "a": []}, "items": [],
                       "pairs": [], "v": {"k": "none"}, "tape": ["lo"], "edit": "", "out": "ok", "changed": [],
                       "heap_changed": [], "repeat_ok": battery_repeats(), "pool_abs": []})
        for k, e in enumerate(evs):
            e["behaviour"] = nb
            e["step"] = k + 1
            if e["changed"] or e["heap_changed"] or not e["repeat_ok"]:
                e["history"] = hist[: k + 1]
            chk.count("op_" + e["op"])
        events += evs
    for k, e in enumerate(events):
        e["id"] = k + 1
    chk.require(chk.counts.get("op_mutate", 0) >= 100 and chk.counts.get("op_list_from", 0) >= 50,
                "operation mix too thin: %r" % chk.counts)
    slim = [{k: v for k, v in e.items() if k not in ("behaviour", "step", "history")} for e in events]
    consts_trace = {"MaxPool": "100", "MaxHeap": "100", "MaxSteps": "1000", "Narrow": "FALSE"}
    name = "C07_Trace_D42"
    wd = tlc.workdir(name + "_ev")
    import json
    path = os.path.join(wd, "events.json")
    with open(path, "w") as f:
        json.dump(slim, f, separators=(",", ":"))
    cfgt = {"init": "TraceInit", "next": "TraceNext", "constants": dict(consts, **consts_trace),
            "postcondition": "TraceAccepted"}
    rest = tlc.run("Trace_D42", cfgt, name, workers=1, env={"TRACE_FILE": path})
    verdicts = {}
    for m in re.finditer(r'<<\s*"V",\s*(-?\d+),\s*"([^"]*)",\s*(TRUE|FALSE)\s*>>', rest.out):
        verdicts[int(m.group(1))] = (m.group(2), m.group(3) == "TRUE")
    if len(verdicts) != len(events):
        raise core.MachineryFailure("Trace_D42: %d verdicts for %d events (TLC: %s)\n%s" % (
            len(verdicts), len(events), rest.error, "\n".join(rest.out.splitlines()[-25:])))
    chk.mc_runs.append({"module": "Trace_D42", "events": len(events), **rest.summary()})
    # (the reset events carry the verdict of the repeatability battery)
    chk.absorb(events, verdicts, describe)
    chk.sample({"history": [dict(op) for op in (sim[0] if sim else hists[0])][:12]})
    chk.sample({"history": hists[len(hists) // 2]})
    chk.exhaustive = False
    chk.assumptions = ["operation and argument universe of spec/D42.tla (5 bare types, a few refinements each, "
                       "caller-owned lists/dicts of schemas and of plain values)",
                       "observable behaviour of a schema = repr, verdicts on %d fixed probe values, fake under two "
                       "fixed tapes, and its props" % len(PROBES)]
    return chk.finish(rule="histories of public operations: all of length %d plus %d simulated ones of length <= %d; "
                           "non-trivial = one operation stepped on real objects with every pooled schema and "
                           "caller-owned value re-examined" % (steps_ex, len(sim), depth),
                      extra={"constants": {"exhaustive_steps": steps_ex, "mc_steps": steps_mc,
                                           "simulated": len(sim), "sim_depth": depth}})
