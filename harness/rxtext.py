"""Regex ASTs of spec/D42Regex.tla <-> Python pattern text.

print_rx(ast) -> text (and remembers text -> ast, so alpha on a pattern that gamma produced is
exact); parse_rx(text) -> ast via the sre parser for patterns that did not come from gamma.
Well-formed ASTs follow concrete syntax: `alt` only at top level or directly under a group,
the body of `rep` is an atom (lit/any/class/group), `seq` parts are not `seq`.
"""
import re
import sys

if sys.version_info >= (3, 11):
    import re._parser as sre
    import re._constants as sc
else:  # pragma: no cover
    import sre_parse as sre
    import sre_constants as sc

INF = -1
_TABLE = {}

_CLS_SPECIAL = set(map(ord, "\\]^-["))
_CAT_TEXT = {"digit": r"\d", "word": r"\w", "space": r"\s",
             "ndigit": r"\D", "nword": r"\W", "nspace": r"\S"}


def _lit(c):
    if c < 32:
        return chr(c)          # a control character stands for itself in a pattern (no escape needed)
    return re.escape(chr(c))


def _cls_lit(c):
    ch = chr(c)
    return "\\" + ch if c in _CLS_SPECIAL else (ch if 32 <= c < 127 else "\\x%02x" % c)


def _cls_item(it):
    ci = it["ci"]
    if ci == "lit":
        return _cls_lit(it["c"])
    if ci == "range":
        return _cls_lit(it["lo"]) + "-" + _cls_lit(it["hi"])
    return _CAT_TEXT[it["cat"]]


class _Printer:
    def __init__(self):
        self.groups = 0

    def p(self, r, top=False):
        k = r["r"]
        if k == "lit":
            return _lit(r["c"])
        if k == "notlit":
            return "[^" + _cls_lit(r["c"]) + "]"
        if k == "any":
            return "."
        if k == "class":
            items = r["items"]
            if not r["neg"] and len(items) == 1 and items[0]["ci"] == "cat":
                return _CAT_TEXT[items[0]["cat"]]
            return "[" + ("^" if r["neg"] else "") + "".join(_cls_item(i) for i in items) + "]"
        if k == "group":
            kind = r["kind"]
            if kind == "noncap":
                return "(?:" + self.p(r["body"], True) + ")"
            self.groups += 1
            n = self.groups
            if kind == "named":
                return "(?P<g%d>" % n + self.p(r["body"], True) + ")"
            return "(" + self.p(r["body"], True) + ")"
        if k == "alt":
            txt = "|".join(self.p(a) for a in r["alts"])
            return txt if top else "(?:" + txt + ")"
        if k == "seq":
            return "".join(self.p(x) for x in r["parts"])
        if k == "rep":
            b = r["body"]
            if b["r"] in ("seq", "alt", "rep", "at") or (b["r"] == "uns" and b["kind"] in ("backref", "possessive")):
                body = "(?:" + self.p(b, True) + ")"
            else:
                body = self.p(b)
            lo, hi = r["lo"], r["hi"]
            if (lo, hi) == (0, INF):
                q = "*"
            elif (lo, hi) == (1, INF):
                q = "+"
            elif (lo, hi) == (0, 1):
                q = "?"
            elif lo == hi:
                q = "{%d}" % lo
            elif hi == INF:
                q = "{%d,}" % lo
            else:
                q = "{%d,%d}" % (lo, hi)
            return body + q + ("?" if r["lazy"] else "")
        if k == "at":
            return "^" if r["at"] == "start" else "$"
        if k == "raw":
            return "".join(chr(c) for c in r["text"])
        if k == "uns":
            kind = r["kind"]
            b = r["body"]
            if kind == "lookahead":
                return "(?=" + self.p(b, True) + ")"
            if kind == "nlookahead":
                return "(?!" + self.p(b, True) + ")"
            if kind == "lookbehind":
                return "(?<=" + self.p(b, True) + ")"
            if kind == "nlookbehind":
                return "(?<!" + self.p(b, True) + ")"
            if kind == "backref":
                self.groups += 1
                return "(" + self.p(b, True) + ")\\%d" % self.groups
            if kind == "atomic":
                return "(?>" + self.p(b, True) + ")"
            if kind == "possessive":
                if b["r"] in ("seq", "alt", "rep", "at") or (b["r"] == "uns" and b["kind"] in ("backref", "possessive")):
                    inner = "(?:" + self.p(b, True) + ")"
                else:
                    inner = self.p(b)
                return inner + "*+"
        raise ValueError("rxtext: cannot print %r" % (r,))


def print_rx(rx):
    text = _Printer().p(rx, True)
    _TABLE[text] = rx
    return text


# ---------------------------------------------------------------------------- sre -> AST
_CATS = {}
for _n, _v in (("CATEGORY_DIGIT", "digit"), ("CATEGORY_WORD", "word"), ("CATEGORY_SPACE", "space"),
               ("CATEGORY_NOT_DIGIT", "ndigit"), ("CATEGORY_NOT_WORD", "nword"),
               ("CATEGORY_NOT_SPACE", "nspace")):
    _CATS[getattr(sc, _n)] = _v


class Unparsable(Exception):
    pass


def _seq(items, named):
    parts = [_node(op, av, named) for op, av in items]
    if len(parts) == 1:
        return parts[0]
    return {"r": "seq", "parts": parts}


def _node(op, av, named):
    if op is sc.LITERAL:
        return {"r": "lit", "c": av}
    if op is sc.NOT_LITERAL:
        return {"r": "notlit", "c": av}
    if op is sc.ANY:
        return {"r": "any"}
    if op is sc.IN:
        neg = False
        items = []
        for iop, iav in av:
            if iop is sc.NEGATE:
                neg = True
            elif iop is sc.LITERAL:
                items.append({"ci": "lit", "c": iav})
            elif iop is sc.RANGE:
                items.append({"ci": "range", "lo": iav[0], "hi": iav[1]})
            elif iop is sc.CATEGORY and iav in _CATS:
                items.append({"ci": "cat", "cat": _CATS[iav]})
            else:
                raise Unparsable("class item %r" % (iop,))
        return {"r": "class", "neg": neg, "items": items}
    if op is sc.SUBPATTERN:
        group, add, dele, sub = av
        if add or dele:
            raise Unparsable("flags")
        kind = "noncap" if group is None else ("named" if group in named else "cap")
        return {"r": "group", "kind": kind, "body": _seq(sub, named)}
    if op is sc.BRANCH:
        return {"r": "alt", "alts": [_seq(a, named) for a in av[1]]}
    if op in (sc.MAX_REPEAT, sc.MIN_REPEAT):
        lo, hi, sub = av
        return {"r": "rep", "body": _seq(sub, named), "lo": lo,
                "hi": INF if hi is sc.MAXREPEAT else hi, "lazy": op is sc.MIN_REPEAT}
    if op is sc.AT:
        if av is sc.AT_BEGINNING:
            return {"r": "at", "at": "start"}
        if av is sc.AT_END:
            return {"r": "at", "at": "end"}
        raise Unparsable("anchor %r" % (av,))
    if op is sc.ASSERT or op is sc.ASSERT_NOT:
        direction, sub = av
        kind = ("n" if op is sc.ASSERT_NOT else "") + ("lookahead" if direction > 0 else "lookbehind")
        return {"r": "uns", "kind": kind, "body": _seq(sub, named)}
    raise Unparsable("opcode %r" % (op,))


def parse_rx(text):
    try:
        parsed = sre.parse(text)
    except re.error:
        raise Unparsable("does not compile")
    named = set(parsed.state.groupdict.values()) if hasattr(parsed, "state") else set()
    items = list(parsed)
    if not items:
        return {"r": "seq", "parts": []}
    return _seq(items, named)


def pattern_arg(p):
    """alpha of a pattern string"""
    if p in _TABLE:
        return {"k": "pat", "rx": _TABLE[p]}
    if p == "[":
        return {"k": "badpat", "why": "error"}
    if p == "a{99999999999999999999}":
        return {"k": "badpat", "why": "overflow"}
    from .absmap import Unrepresentable
    try:
        return {"k": "pat", "rx": parse_rx(p)}
    except (Unparsable, OverflowError) as e:
        raise Unrepresentable("pattern %r: %s" % (p, e))
