"""C01  Generated data always validates against its own schema.

(A) spec/MC_Val.tla: every DSL-reachable scalar schema and the container universe, observed
under every tape of draw outcomes; invariant: a satisfiable schema generates a conforming value.
(B) each (schema, tape) is replayed on the real generator with the `random` module inside
d42.generation._random scripted to the same boundary outcomes.
(C) spec/Trace_C01.tla: fake() returned, the real validate() accepts the value, the spec's
Conforms accepts it; drift = differs from the operational generator model.
"""
from . import absmap as am
from .common import safe_repr
from . import core, valgen
from .common import try_abs


def describe(e):
    return {"schema": e["s"], "repr": e.get("repr"), "tape": e["tape"], "exc": e["exc"],
            "validate_ok": e["vok"], "value": e["v"], "value_repr": e.get("vrepr")}


def run_one(cache, s, tape):
    import d42
    real, why = cache.get(s)
    if real is None:
        return None
    exc, val = valgen.real_fake(real, tape)
    ev = {"s": s, "tape": tape, "exc": exc, "vok": True, "rep": False, "v": [],
          "repr": safe_repr(real)[:300]}
    if not exc:
        try:
            from .common import timed
            ev["vok"] = timed(lambda: not d42.validate(real, val).has_errors(), True)
        except Exception:
            ev["vok"] = False
        ev["rep"], ev["v"] = try_abs(am.a_value, val)
        ev["vrepr"] = safe_repr(val)[:200]
    return ev


def main(chk):
    core.setup_repo_path()
    quick = chk.tier == "quick"
    depth, tapeset = (2, "two") if quick else (3, "three")
    res = valgen.run_machine(chk, ["C01_GeneratedConforms", "C01_GeneratedValidates"], depth, tapeset)
    cache = valgen.SchemaCache(chk)
    events = []
    for s, tape, g, src in valgen.observed(res):
        ev = run_one(cache, s, tape)
        if ev is None:
            continue
        ev["id"] = len(events) + 1
        events.append(ev)
        chk.count("runs_" + s["t"])
        chk.count("raised" if ev["exc"] else "returned")
    # code -> spec only: string schemas with a pattern whose characters are drawn -- every index
    # as the outcome of every choice (a hash-ordered candidate string cannot be predicted)
    from .c09 import has_char_draw
    swept = set()
    for e in list(events):
        s = e["s"]
        if s["t"] == "str" and s["pattern"] and s["pattern"][0]["k"] == "pat" and not s["value"] \
                and has_char_draw(s["pattern"][0]["rx"]) and valgen.key(s) not in swept:
            swept.add(valgen.key(s))
            for idx in range(1, 101):
                ev = run_one(cache, s, ["i:%d" % idx])
                ev["id"] = len(events) + 1
                events.append(ev)
                chk.count("index_sweep_runs")
    # code -> spec, beyond the exhaustive universes: random schemas nested three (quick) or
    # four (thorough) levels deep, generated with scripted tapes *and* with the real random
    # module seeded from VERIF_SEED (tape <<>>: no prediction, the property clauses only)
    import random as _random
    from . import deep
    ndeep, ddepth = (400, 3) if quick else (6000, 4)
    # always present (not left to the random draw): containers that are satisfiable although one
    # member is a string schema the DSL accepts and nothing conforms to
    fixed = []
    for bad in (dict(deep.STR0, substr=[deep.VStr([97])], min_len=[deep.VInt(0)], max_len=[deep.VInt(0)]),
                dict(deep.STR0, substr=[deep.VStr([98])], alphabet=[deep.VStr([97])])):
        for s in ({"t": "list", "type": [bad], "elems": [], "len": [], "min_len": [deep.VInt(0)], "max_len": [deep.VInt(3)]},
                  {"t": "dict", "keys": [[{"key": deep.VStr([97]), "val": bad, "opt": True}]]},
                  {"t": "any", "types": [[bad, {"t": "none"}]]}):
            fixed.append((s, am.g_schema(s)))
    # string schemas over random programs of the supported regex grammar (the constructors of
    # spec/MC_Regex.tla, as in C09's driver), generated through the module-level fake()
    from . import c09
    patterns = []
    tries = 0
    while len(patterns) < (300 if quick else 3000) and tries < 50000:
        tries += 1
        rx = c09.rand_rx(chk.rng, chk.rng.randrange(1, 5))
        if rx is None or deep._has_uns(rx) or c09.worst_len(rx, 32) > 70:
            continue
        s = dict(deep.STR0, pattern=[{"k": "pat", "rx": rx}])
        try:
            real = am.g_schema(s)
            if am.a_schema(real) == s:
                patterns.append((s, real))
        except Exception:
            pass
    for s, real in fixed + patterns + deep.schemas(chk.rng, ndeep, ddepth):
        cache.cache[valgen.key(s)] = (real, None)
        for tape in (["lo"], ["hi"], ["lo1", "hi"], []):
            if tape:
                ev = run_one(cache, s, tape)
            else:
                _random.seed(chk.rng.randrange(1 << 30))
                exc, val = "", None
                try:
                    val = __import__("d42").fake(real)
                except Exception as e:
                    exc = type(e).__name__
                ev = {"s": s, "tape": [], "exc": exc, "vok": True, "rep": False, "v": [], "repr": safe_repr(real)[:300]}
                if not exc:
                    try:
                        from .common import timed
                        ev["vok"] = timed(lambda: not __import__("d42").validate(real, val).has_errors(), True)
                    except Exception:
                        ev["vok"] = False
                    ev["rep"], ev["v"] = try_abs(am.a_value, val)
                    ev["vrepr"] = safe_repr(val)[:200]
            ev["id"] = len(events) + 1
            events.append(ev)
            chk.count("deep_runs")
    # real binary floats (the model's numbers are exact): schemas pinned to decimal ties or bounded
    # off the precision grid; the stand-in abstract schema only tells the trace spec that the case
    # is satisfiable, which is established here on the real schema first
    dummy = {"t": "float", "value": [deep.VFloat(0)], "min": [], "max": [], "precision": []}
    import d42 as _d42
    for text, real in deep.real_float_schemas():
        pinned = real.props.get("value")
        from niltype import Nil
        witness = pinned if pinned is not Nil else None
        for tape in (["lo"], ["hi"], ["lo1"], ["hi1"], []):
            if tape:
                exc, val = valgen.real_fake(real, tape)
            else:
                exc, val = "", None
                try:
                    val = _d42.fake(real)
                except Exception as e:  # noqa
                    exc = type(e).__name__
            if witness is not None and _d42.validate(real, witness).has_errors():
                continue                       # the pinned value does not conform itself: not this property's subject
            if exc and witness is None:
                continue                       # a bounded schema whose grid is empty: the open precision-grid finding
            ev = {"s": dummy, "tape": [], "exc": exc, "vok": True, "rep": False, "v": [], "repr": text}
            if not exc:
                ev["vok"] = not _d42.validate(real, val).has_errors()
                ev["vrepr"] = safe_repr(val)
            ev["id"] = len(events) + 1
            events.append(ev)
            chk.count("real_float_runs")
    chk.require(len(events) >= 5000, "fewer than 5000 generator runs (%d)" % len(events))
    for t in ("int", "float", "str", "list", "dict", "any"):
        chk.require(chk.counts.get("runs_" + t, 0) >= 50, "too few runs for " + t)
    slim = [{k: e[k] for k in ("id", "s", "tape", "exc", "vok", "rep", "v")} for e in events]
    verdicts = chk.validate_events("Trace_C01", slim)
    chk.absorb(events, verdicts, describe)
    chk.require(chk.events_ok >= 3000, "too few runs ended in an OK verdict (%d)" % chk.events_ok)
    for e in events[:: max(1, len(events) // 5)][:5]:
        chk.sample(describe(e))
    chk.assumptions = [
        "draw outcomes restricted to the boundary selectors lo/lo1/hi1/hi of each primitive's contract, "
        "cyclic tapes of length <= %d" % (2 if quick else 3),
        "satisfiability is established constructively (spec/D42Probe.tla Witness); schemas without a "
        "witness are skipped, never failed",
        "numeric universe: abstract ints/floats of harness/absmap.py (landmarks for +-2**63)",
    ]
    return chk.finish(rule="every scalar schema reachable by <= %d DSL calls plus %s container schemas, each "
                           "under every tape of the %r tape set; non-trivial = a run on a schema shown "
                           "satisfiable" % (depth, "the", tapeset),
                      extra={"constants": {"Depth": depth, "TapeSet": tapeset}})
