"""gamma (abstract -> real d42 objects, through the public DSL) and alpha (real -> abstract).

Abstract data are the JSON-compatible images of the TLA+ records of spec/D42Values.tla and
spec/D42Schema.tla (dict = record, list = sequence, Option = [] | [x]).
"""
import datetime as _dt
import decimal
import fractions
import collections
import itertools
import sys
import uuid

from . import rxtext

INT_LANDMARKS = {
    1000: 2 ** 63 - 1, 999: 2 ** 63 - 2, 1001: 2 ** 63, 1002: 2 ** 63 + 1,
    -1000: -(2 ** 63), -999: -(2 ** 63) + 1, -1001: -(2 ** 63) - 1, -1002: -(2 ** 63) - 2,
    2000: 10 ** 400, -2000: -(10 ** 400),
    3000: 10 ** 5000,        # beyond CPython's default 4300-digit limit for int -> str
}
INT_LANDMARKS_INV = {v: k for k, v in INT_LANDMARKS.items()}
# (150000 and 200000 are both so large that scaling them by any precision overflows)
FLOAT_LANDMARKS = {100100: float(2 ** 63), -100000: float(-(2 ** 63)), 200000: 1e308, -200000: -1e308,
                   150000: 5e307}
FLOAT_LANDMARKS_INV = {v: k for k, v in FLOAT_LANDMARKS.items()}


class Unrepresentable(Exception):
    """a real value outside the abstract domain (not an error of the code under test)"""


def d42():
    import d42 as _d42
    return _d42


# --------------------------------------------------------------------------- hostile zoo
class MyInt(int):
    pass


class MyFloat(float):
    pass


class MyStr(str):
    pass


class MyBytes(bytes):
    pass


class MyList(list):
    pass


class MyDict(dict):
    pass


class Opaque:
    def __init__(self, tag):
        self.tag = tag

    def __repr__(self):
        return "Opaque(%r)" % (self.tag,)


class UuidLike:
    """looks like a UUID but is not one"""
    version = 4

    def __repr__(self):
        return "UuidLike()"


_OPAQUE = {}


def _opaque(tag):
    if tag not in _OPAQUE:
        _OPAQUE[tag] = Opaque(tag)
    return _OPAQUE[tag]


_UUIDLIKE = UuidLike()
def _defaultdict(base):
    return collections.defaultdict(int, base)


_SUBCLASS = {"DefaultDict": (collections.defaultdict, "dict"), "MyInt": (MyInt, "int"), "MyFloat": (MyFloat, "float"), "MyStr": (MyStr, "str"),
             "MyBytes": (MyBytes, "bytes"), "MyList": (MyList, "list"), "MyDict": (MyDict, "dict"),
             "OrderedDict": (collections.OrderedDict, "dict")}

# cls -> (factory, isa); objects that compare by identity are singletons
_ZOO = {
    "tuple0": (lambda: (), []),
    "tuple12": (lambda: (1, 2), []),
    "tuple_with_list": (lambda: (1, [2]), []),      # a tuple (isinstance Hashable) that cannot be hashed
    "set1": (lambda: {1}, []),
    "frozenset1": (lambda: frozenset({1}), []),
    "bytearray_ab": (lambda: bytearray(b"ab"), []),
    "Decimal1": (lambda: decimal.Decimal(1), []),
    "Fraction12": (lambda: fractions.Fraction(1, 2), []),
    "complex1": (lambda: complex(1, 0), []),
    "range3": (lambda: range(3), []),
    "object_a": (lambda: _opaque("a"), []),
    "object_b": (lambda: _opaque("b"), []),
    "uuidlike": (lambda: _UUIDLIKE, []),
    "type_int": (lambda: int, []),
    "lambda": (lambda: _LAMBDA, []),
    "notimplemented": (lambda: NotImplemented, []),
    # members that cannot be ordered among themselves
    "set_mixed": (lambda: {1, "a"}, []),
    "frozenset_mixed": (lambda: frozenset({b"a", "a", None}), []),
    # objects that can be neither copied nor pickled
    "generator": (lambda: _GENERATOR, []),
    "lock": (lambda: _LOCK, []),
    "uncopyable": (lambda: _UNCOPYABLE, []),
}


class Uncopyable:
    def __copy__(self):
        raise TypeError("cannot be copied")

    def __deepcopy__(self, memo):
        raise TypeError("cannot be copied")

    def __reduce_ex__(self, protocol):
        raise TypeError("cannot be pickled")


def _gen():
    yield 1


_GENERATOR = _gen()
_LOCK = __import__("threading").Lock()
_UNCOPYABLE = Uncopyable()
_LAMBDA = (lambda: None)


def zoo_classes():
    return sorted(_ZOO)


def VObj(cls, isa, base):
    return {"k": "obj", "cls": cls, "isa": list(isa), "base": base}


# --------------------------------------------------------------------------- gamma: values
def g_int(n):
    if -900 <= n <= 900:
        return n
    if n in INT_LANDMARKS:
        return INT_LANDMARKS[n]
    raise Unrepresentable("abstract int %r" % (n,))


def g_float(v):
    sp = v.get("sp", "fin")
    if sp == "inf":
        return float("inf")
    if sp == "-inf":
        return float("-inf")
    if sp == "nan":
        return float("nan")
    q = v["q"]
    if q in FLOAT_LANDMARKS:
        return FLOAT_LANDMARKS[q]
    if abs(q) > 90000:
        raise Unrepresentable("abstract float %r" % (q,))
    return q / 100.0


def g_text(cps):
    return "".join(chr(c) for c in cps)


def g_value(v):
    """abstract value / argument record -> Python object"""
    k = v["k"]
    if k == "none":
        return None
    if k == "bool":
        return bool(v["tf"])
    if k == "int":
        return g_int(v["n"])
    if k == "float":
        return g_float(v)
    if k == "str":
        return g_text(v["s"])
    if k == "bytes":
        return bytes(v["bs"])
    if k == "list":
        return [g_value(x) for x in v["items"]]
    if k == "dict":
        return {g_value(p["key"]): g_value(p["val"]) for p in v["pairs"]}
    if k == "uuid":
        if v["ver"] in (1, 3, 4, 5):
            return uuid.UUID(int=0x1234567890abcdef1234567890abcdef + v["id"], version=v["ver"])
        if v["id"] == 1:
            return _UUID_LOOKALIKE       # version nibble 4, variant bits not RFC 4122: .version is None
        return uuid.UUID(int=v["id"])
    if k == "datetime":
        if v["dt"] >= 1000:      # the same wall-clock reading with a UTC offset attached (1000: UTC, 2000: +03:00)
            tz = _dt.timezone(_dt.timedelta(hours=0 if v["dt"] < 2000 else 3))
            return (_dt.datetime(2020, 1, 2, 3, 4, 5) + _dt.timedelta(days=v["dt"] % 1000)).replace(tzinfo=tz)
        return _dt.datetime(2020, 1, 2, 3, 4, 5) + _dt.timedelta(days=v["dt"])
    if k == "date":
        return _dt.date(2020, 1, 2) + _dt.timedelta(days=v["d"])
    if k == "ellipsis":
        return ...
    if k == "nil":
        from niltype import Nil
        return Nil
    if k == "schema":
        return g_schema(v["sch"])
    if k == "optional":
        return d42().optional(g_value(v["key"]))
    if k == "pat":
        return rxtext.print_rx(v["rx"])
    if k == "badpat":
        return "[" if v["why"] == "error" else "a{99999999999999999999}"
    if k == "obj":
        cls = v["cls"]
        if cls == "DefaultDict":
            return _defaultdict(g_value(v["base"][0]))
        if cls in _SUBCLASS:
            return _SUBCLASS[cls][0](g_value(v["base"][0]))
        if cls in _ZOO:
            return _ZOO[cls][0]()
        raise Unrepresentable("obj class %r" % (cls,))
    raise Unrepresentable("value kind %r" % (k,))


# --------------------------------------------------------------------------- alpha: values
def a_int(n):
    if -900 <= n <= 900:
        return n
    if n in INT_LANDMARKS_INV:
        return INT_LANDMARKS_INV[n]
    raise Unrepresentable("int %r" % (n,))


def a_float(x):
    if x != x:
        return {"k": "float", "q": 0, "sp": "nan"}
    if x == float("inf"):
        return {"k": "float", "q": 0, "sp": "inf"}
    if x == float("-inf"):
        return {"k": "float", "q": 0, "sp": "-inf"}
    if x in FLOAT_LANDMARKS_INV:
        return {"k": "float", "q": FLOAT_LANDMARKS_INV[x], "sp": "fin"}
    q = round(x * 100)
    if abs(q) > 90000 or q / 100.0 != x:
        raise Unrepresentable("float %r" % (x,))
    return {"k": "float", "q": int(q), "sp": "fin"}


def a_text(s):
    return [ord(c) for c in s]


_UUID_BASE = 0x1234567890abcdef1234567890abcdef
_UUID_LOOKALIKE = uuid.UUID("12345678-1234-4234-0234-123456789abc")


def a_value(x):
    """Python object -> abstract value record (raises Unrepresentable outside the domain)"""
    from niltype import Nil
    sch = _schema_base()
    if x is None:
        return {"k": "none"}
    if x is ...:
        return {"k": "ellipsis"}
    if x is Nil:
        return {"k": "nil"}
    t = type(x)
    if t is bool:
        return {"k": "bool", "tf": x}
    if t is int:
        return {"k": "int", "n": a_int(x)}
    if t is float:
        return a_float(x)
    if t is str:
        return {"k": "str", "s": a_text(x)}
    if t is bytes:
        return {"k": "bytes", "bs": list(x)}
    if t is list:
        return {"k": "list", "items": [a_value(i) for i in x]}
    if t is dict:
        return {"k": "dict", "pairs": [{"key": a_value(k), "val": a_value(v)} for k, v in x.items()]}
    if t is uuid.UUID:
        ver = x.version
        if ver in (1, 3, 4, 5):
            for i in range(0, 64):
                if uuid.UUID(int=_UUID_BASE + i, version=ver) == x:
                    return {"k": "uuid", "ver": ver, "id": i}
        if x == _UUID_LOOKALIKE:
            return {"k": "uuid", "ver": 0, "id": 1}
        if ver is None and x.int < 64:
            return {"k": "uuid", "ver": 0, "id": x.int}       # not an RFC 4122 UUID: version is None
        raise Unrepresentable("uuid %r" % (x,))
    if t is _dt.datetime:
        if x.tzinfo is not None:
            off = x.utcoffset()
            base = {_dt.timedelta(0): 1000, _dt.timedelta(hours=3): 2000}.get(off)
            d = x.replace(tzinfo=None) - _dt.datetime(2020, 1, 2, 3, 4, 5)
            if base is None or d.seconds or d.microseconds or not 0 <= d.days < 500:
                raise Unrepresentable("datetime %r" % (x,))
            return {"k": "datetime", "dt": base + d.days}
        delta = x - _dt.datetime(2020, 1, 2, 3, 4, 5)
        if delta.seconds or delta.microseconds or abs(delta.days) > 500:
            raise Unrepresentable("datetime %r" % (x,))
        return {"k": "datetime", "dt": delta.days}
    if t is _dt.date:
        delta = x - _dt.date(2020, 1, 2)
        if abs(delta.days) > 500:
            raise Unrepresentable("date %r" % (x,))
        return {"k": "date", "d": delta.days}
    if isinstance(x, sch):
        return {"k": "schema", "sch": a_schema(x)}
    if t is d42().optional:
        return {"k": "optional", "key": a_value(x.key)}
    for cls, (pycls, basekind) in _SUBCLASS.items():
        if t is pycls:
            plain = {"int": int, "float": float, "str": str, "bytes": bytes,
                     "list": list, "dict": dict}[basekind](x)
            return VObj(cls, [basekind], [a_value(plain)])
    for cls, (factory, isa) in _ZOO.items():
        y = factory()
        if type(y) is t and (y is x or (not isinstance(y, (Opaque, UuidLike, Uncopyable)) and _safe_eq(y, x))):
            return VObj(cls, isa, [])
    raise Unrepresentable("python value %r of %r" % (x, t))


def _safe_eq(a, b):
    try:
        return bool(a == b)
    except Exception:
        return False


def _schema_base():
    from d42.declaration.types import Schema
    return Schema


# --------------------------------------------------------------------------- gamma: schemas
def g_call(obj, call):
    """apply one abstract DSL call to a real schema"""
    m = call["m"]
    args = [g_value(a) for a in call["a"]]
    if m == "value":
        return obj(*args)
    if m == "or":
        return obj | args[0]
    return getattr(obj, m)(*args)


def g_bare(t):
    s = d42().schema
    return getattr(s, t)


def g_chain(t, chain):
    obj = g_bare(t)
    for c in chain:
        obj = g_call(obj, c)
    return obj


def _opt(o):
    return o[0] if o else None


_SCALAR_ORDER = {
    "int": ["value", "min", "max"],
    "float": ["value", "min", "max", "precision"],
    "str": ["value", "alphabet", "contains", "regex", "len"],
}


def scalar_calls(s):
    """the DSL calls that declare abstract scalar schema s, value first"""
    t = s["t"]
    calls = []
    if s.get("value"):
        calls.append({"m": "value", "a": [s["value"][0]]})
    if t in ("int", "float"):
        for p in ("min", "max"):
            if s[p]:
                calls.append({"m": p, "a": [s[p][0]]})
        if t == "float" and s["precision"]:
            calls.append({"m": "precision", "a": [s["precision"][0]]})
    if t == "str":
        if s["alphabet"]:
            calls.append({"m": "alphabet", "a": [s["alphabet"][0]]})
        if s["substr"]:
            calls.append({"m": "contains", "a": [s["substr"][0]]})
        if s["pattern"]:
            calls.append({"m": "regex", "a": [s["pattern"][0]]})
    if t in ("str", "list"):
        lc = len_call(s)
        if lc:
            calls.append(lc)
    return calls


def len_call(s):
    ell = {"k": "ellipsis"}
    if s["len"]:
        return {"m": "len", "a": [s["len"][0]]}
    if s["min_len"] and s["max_len"]:
        return {"m": "len", "a": [s["min_len"][0], s["max_len"][0]]}
    if s["min_len"]:
        return {"m": "len", "a": [s["min_len"][0], ell]}
    if s["max_len"]:
        return {"m": "len", "a": [ell, s["max_len"][0]]}
    return None


# Construction routes.  The same declaration can be written in several public ways: a union as
# schema.any(a, b, c), a | b | c, a | (b | c), schema.any(a, schema.any(b, c)); a dict schema
# directly, as make_required(<all keys optional>, [required keys]) or as d1 + d2.  With routes
# enabled every build takes the next route, so whatever a check does with "the schema" it does,
# over a run, with schemas that arrived through every public entry point.
ROUTES = {"on": False, "n": 0, "per_shape": {}}


def enable_routes(on=True):
    ROUTES["on"] = on
    ROUTES["n"] = 0
    ROUTES["per_shape"] = {}


def _next_route(shape):
    """routes are taken in turn *per shape* (unions of 2, 3, 4+ alternatives; dicts of 1, 2, 3+
    keys), so that a handful of schemas of one shape is enough to meet every way of writing it"""
    if not ROUTES["on"]:
        return 0
    n = ROUTES["per_shape"].get(shape, 0) + 1
    ROUTES["per_shape"][shape] = n
    return n


def _build_any(D, alts, r):
    if len(alts) < 2 or r % 4 == 0:
        return D.schema.any(*alts)
    if len(alts) >= 4:
        r = {1: 3, 2: 1, 3: 2}[r % 4]          # the balanced form (a | b) | (c | d) first
    if r % 4 == 1:
        obj = alts[0]
        for x in alts[1:]:
            obj = obj | x
        return obj
    if r % 4 == 2:
        obj = alts[-1]
        for x in reversed(alts[:-1]):
            obj = x | obj
        return obj
    if len(alts) >= 4:
        h = len(alts) // 2
        return _build_any(D, alts[:h], 1) | _build_any(D, alts[h:], 1)
    return D.schema.any(alts[0], D.schema.any(*alts[1:])) if len(alts) > 2 else D.schema.any(D.schema.any(alts[0]), alts[1])


def _build_dict(D, entries, r):
    """entries: [(key | ..., value schema | ..., optional)]"""
    def direct(ents, all_optional=False):
        keys = {}
        for key, val, opt in ents:
            keys[key if key is ... else (D.optional(key) if (opt or all_optional) else key)] = val
        made = D.schema.dict(keys)
        keys["__scribbled_afterwards__"] = D.schema.none      # the dict was the caller's
        keys.clear()
        return made
    if r % 3 == 1:
        from d42.utils import make_required
        required = [key for key, val, opt in entries if key is not ... and not opt]
        if len(required) == len([1 for key, _, _ in entries if key is not ...]):
            return make_required(direct(entries, all_optional=True))          # all of them: the default
        return make_required(direct(entries, all_optional=True), required if r % 2 else set(required))
    if r % 3 == 2 and len(entries) >= 2:
        h = len(entries) // 2
        return direct(entries[:h]) + direct(entries[h:])
    return direct(entries)


def g_schema(s, _depth=0):
    """abstract schema -> real schema, through the public DSL only"""
    D = d42()
    t = s["t"]
    if ROUTES["on"] and _depth == 0:
        ROUTES["n"] += 1
    route = (ROUTES["n"] + _depth) if ROUTES["on"] else 0
    if t in ("none",):
        return D.schema.none
    if t in ("bool", "bytes", "uuid4", "datetime", "date", "int", "float"):
        obj = getattr(D.schema, t)
        for c in scalar_calls(s):
            obj = g_call(obj, c)
        return obj
    if t == "str":
        calls = scalar_calls(s)
        last = None
        # the DSL may only accept some orders (that is C11's business); find one that works
        head = [c for c in calls if c["m"] == "value"]
        rest = [c for c in calls if c["m"] != "value"]
        for perm in itertools.permutations(rest):
            try:
                obj = D.schema.str
                for c in head + list(perm):
                    obj = g_call(obj, c)
                return obj
            except D.declaration.DeclarationError as e:  # type: ignore[attr-defined]
                last = e
        raise Unrepresentable("no DSL order builds %r (%s)" % (s, last))
    if t == "list":
        obj = D.schema.list
        if s["type"]:
            obj = obj(g_schema(s["type"][0], _depth + 1))
        elif s["elems"]:
            mine = [... if _is_ell(e) else g_schema(e, _depth + 1) for e in s["elems"][0]]
            obj = obj(mine)
            # the list was the caller's: what the caller does with it afterwards is its own business
            mine.append(D.schema.none)
            mine.reverse()
            del mine[:]
        lc = len_call(s)
        if lc:
            obj = g_call(obj, lc)
        return obj
    if t == "dict":
        obj = D.schema.dict
        if s["keys"]:
            entries = []
            for e in s["keys"][0]:
                if _is_ell(e["key"]):
                    entries.append((..., ..., False))
                else:
                    entries.append((g_value(e["key"]), g_schema(e["val"], _depth + 1), e["opt"]))
            try:
                hashes = [hash(k) for k, _, _ in entries]
                distinct = len({k for k, _, _ in entries}) == len(entries)
            except TypeError:
                distinct = False
            obj = _build_dict(D, entries, _next_route(("dict", min(len(entries), 3))) if distinct else 0)
        return obj
    if t == "any":
        obj = D.schema.any
        if s["types"]:
            alts = [g_schema(x, _depth + 1) for x in s["types"][0]]
            if not alts:
                raise Unrepresentable("any with no alternatives is not declarable")
            # unions holding the accept-everything alternative are a kind of their own (by its position):
            # their few members meet every way of writing a union, whatever else has been built before
            bare = [i for i, x in enumerate(s["types"][0]) if x["t"] == "any" and not x["types"]]
            shape = ("any", min(len(alts), 4)) if not bare else ("any_bare", min(len(alts), 4), bare[0])
            obj = _build_any(D, alts, _next_route(shape))
        return obj
    if t == "alias":
        return D.schema.alias(s["name"], g_schema(s["type"], _depth + 1))
    if t == "custom":
        from . import customtype
        return customtype.wrap(g_schema(s["inner"], _depth + 1))
    raise Unrepresentable("schema type %r" % (t,))


def _is_ell(e):
    return isinstance(e, dict) and e.get("k") == "ellipsis"


# --------------------------------------------------------------------------- alpha: schemas
def _a_opt(x, conv=None):
    from niltype import Nil
    if x is Nil:
        return []
    return [conv(x) if conv else a_value(x)]


def a_pattern(p):
    return rxtext.pattern_arg(p)


def a_schema(real):
    """real schema -> abstract schema, reading props through the public Props.get"""
    from niltype import Nil
    from d42.declaration import types as T
    from d42.custom_type import CustomSchema
    if not isinstance(real, _schema_base()):
        raise Unrepresentable("not a schema: %r" % (type(real),))     # e.g. a non-schema member of a union
    p = real.props
    if isinstance(real, CustomSchema):
        from . import customtype
        inner = customtype.unwrap(real)
        if inner is None:
            raise Unrepresentable("custom schema %r" % (type(real),))
        return {"t": "custom", "inner": a_schema(inner)}
    if isinstance(real, T.NoneSchema):
        return {"t": "none"}
    for cls, t in ((T.BoolSchema, "bool"), (T.BytesSchema, "bytes"), (T.UUID4Schema, "uuid4"),
                   (T.DateTimeSchema, "datetime"), (T.DateSchema, "date")):
        if isinstance(real, cls):
            return {"t": t, "value": _a_opt(p.get("value"))}
    if isinstance(real, T.IntSchema):
        return {"t": "int", "value": _a_opt(p.get("value")), "min": _a_opt(p.get("min")),
                "max": _a_opt(p.get("max"))}
    if isinstance(real, T.FloatSchema):
        return {"t": "float", "value": _a_opt(p.get("value")), "min": _a_opt(p.get("min")),
                "max": _a_opt(p.get("max")), "precision": _a_opt(p.get("precision"))}
    if isinstance(real, T.StrSchema):
        return {"t": "str", "value": _a_opt(p.get("value")), "len": _a_opt(p.get("len")),
                "min_len": _a_opt(p.get("min_len")), "max_len": _a_opt(p.get("max_len")),
                "alphabet": _a_opt(p.get("alphabet")), "substr": _a_opt(p.get("substr")),
                "pattern": _a_opt(p.get("pattern"), a_pattern)}
    if isinstance(real, T.ListSchema):
        ty = p.get("type")
        el = p.get("elements")
        return {"t": "list",
                "type": [] if ty is Nil else [a_schema(ty)],
                "elems": [] if el is Nil else [[{"k": "ellipsis"} if e is ... else a_schema(e)
                                                for e in el]],
                "len": _a_opt(p.get("len")), "min_len": _a_opt(p.get("min_len")),
                "max_len": _a_opt(p.get("max_len"))}
    if isinstance(real, T.DictSchema):
        keys = p.get("keys")
        if keys is Nil:
            return {"t": "dict", "keys": []}
        out = []
        for k, (v, opt) in keys.items():
            if k is ...:
                out.append({"key": {"k": "ellipsis"}, "val": {"k": "ellipsis"}, "opt": False})
            else:
                out.append({"key": a_value(k), "val": {"k": "ellipsis"} if v is ... else a_schema(v),
                            "opt": bool(opt)})
        return {"t": "dict", "keys": [out]}
    if isinstance(real, T.AnySchema):
        ty = p.get("types")
        return {"t": "any", "types": [] if ty is Nil else [[a_schema(x) for x in ty]]}
    if isinstance(real, T.GenericTypeAliasSchema):
        return {"t": "alias", "name": p.get("name") if p.get("name") is not Nil else "",
                "type": a_schema(p.type)}
    raise Unrepresentable("schema %r" % (type(real),))


# --------------------------------------------------------------------------- alpha: errors
_ERR_KINDS = None


def _err_kinds():
    global _ERR_KINDS
    if _ERR_KINDS is None:
        from d42.validation import errors as E
        _ERR_KINDS = [
            (E.TypeValidationError, "type"), (E.ValueValidationError, "value"),
            (E.MinValueValidationError, "min_value"), (E.MaxValueValidationError, "max_value"),
            (E.LengthValidationError, "length"), (E.MinLengthValidationError, "min_length"),
            (E.MaxLengthValidationError, "max_length"), (E.AlphabetValidationError, "alphabet"),
            (E.SubstrValidationError, "substr"), (E.RegexValidationError, "regex"),
            (E.MissingElementValidationError, "missing_element"),
            (E.ExtraElementValidationError, "extra_element"),
            (E.MissingKeyValidationError, "missing_key"), (E.ExtraKeyValidationError, "extra_key"),
            (E.SchemaMismatchValidationError, "schema_mismatch"),
            (E.InvalidUUIDVersionValidationError, "uuid_version"),
        ]
    return _ERR_KINDS


_TYPE_NAMES = None


def a_type(tp):
    global _TYPE_NAMES
    if _TYPE_NAMES is None:
        _TYPE_NAMES = {type(None): "none", bool: "bool", int: "int", float: "float", str: "str",
                       bytes: "bytes", list: "list", dict: "dict", uuid.UUID: "uuid",
                       _dt.datetime: "datetime", _dt.date: "date"}
    return _TYPE_NAMES.get(tp, getattr(tp, "__name__", str(tp)))


def a_path(path, root=None):
    """PathHolder -> abstract path; an int operand is a list index unless the container
    reached so far (walking `root`) is a dict, where it is a key"""
    out = []
    cur = root
    known = root is not None
    for op in path:
        operand = op.operand
        if type(op).__name__ != "ItemAccessor":
            raise Unrepresentable("path operator %r" % (op,))
        is_key = type(operand) is not int
        if known and isinstance(cur, dict):
            is_key = True
        if is_key:
            out.append({"key": a_value(operand)})
        else:
            out.append({"ix": operand})
        if known:
            try:
                if isinstance(cur, dict):
                    # never cur[operand]: a defaultdict would *insert* the key we merely look at
                    if operand in cur:
                        cur = dict.get(cur, operand)
                    else:
                        known = False
                else:
                    cur = cur[operand]
            except Exception:
                known = False
    return out


def a_error(e, root=None):
    kind = None
    for cls, name in _err_kinds():
        if type(e) is cls:
            kind = name
    if kind is None:
        raise Unrepresentable("error class %r" % (type(e),))
    r = {"kind": kind, "path": a_path(e.path, root), "actual": a_value(e.actual_value)}
    if kind == "type":
        r["exp"] = a_type(e.expected_type)
    elif kind == "value":
        r["expv"] = a_value(e.expected_value)
    elif kind == "min_value":
        r["bound"] = a_value(e.min_value)
    elif kind == "max_value":
        r["bound"] = a_value(e.max_value)
    elif kind == "length":
        r["size"] = a_value(e.length)
    elif kind == "min_length":
        r["size"] = a_value(e.min_length)
    elif kind == "max_length":
        r["size"] = a_value(e.max_length)
    elif kind == "alphabet":
        r["alphabet"] = a_value(e.alphabet)
    elif kind == "substr":
        r["substr"] = a_value(e.substr)
    elif kind == "regex":
        r["pattern"] = a_pattern(e.pattern)
    elif kind in ("missing_element", "extra_element"):
        r["index"] = e.index
    elif kind == "missing_key":
        r["mkey"] = a_value(e.missing_key)
    elif kind == "extra_key":
        r["xkey"] = a_value(e.extra_key)
    elif kind == "schema_mismatch":
        r["types"] = [a_schema(x) for x in e.expected_schemas]
    elif kind == "uuid_version":
        r["ver"] = e.actual_version if isinstance(e.actual_version, int) else 0
    return r


def exc_name(e):
    return type(e).__name__
