"""C02 / C03 / C08 driver: spec/MC_Val.tla -> real validate() -> spec/Trace_Val.tla"""
from . import absmap as am
from . import core, mutants, valgen
from .common import safe_repr

INVS = {"C02": ["C02_VerdictIsMeaning"], "C03": ["C03_ErrorsAreTrue"], "C08": ["C08_Total"]}


def describe(e):
    return {"schema": e["s"], "schema_repr": e.get("srepr"), "value": e["v"], "value_repr": e.get("vrepr"),
            "exc": e["exc"], "nerrs": e["nerrs"], "errors": e["errs"], "facts": e["facts"], "eq": e["eq"],
            "validate_or_fail": e["vof"]}


def pathheap_cases(chk, events):
    """spec/PathHeap.tla: the heap of mutable path objects.  With CopyOnDescend the invariant
    "every error's path is the position it was raised at" holds in every state; without it TLC
    must find the sibling leak (non-vacuity).  Every finished traversal is replayed on the real
    validator: nested typed lists whose bad leaves are strings."""
    import d42
    consts = {"MaxDepth": "2" if chk.tier == "quick" else "3", "MaxFan": "2"}
    res = chk.model_check("PathHeap", {"constants": dict(consts, CopyOnDescend="TRUE"),
                                       "invariants": ["ErrorsPointAtTheirValue"]}, name="C03_PathHeap", dump=True)
    bad = chk.model_check("PathHeap", {"constants": dict(consts, CopyOnDescend="FALSE"),
                                       "invariants": ["ErrorsPointAtTheirValue"]}, name="C03_PathHeap_nocopy",
                          expect_violation=True)
    chk.require(bad.violated == "ErrorsPointAtTheirValue",
                "PathHeap without the copy should violate the invariant (got %r)" % (bad.violated,))

    def depth(t):
        return 0 if t["leaf"] else 1 + max(depth(k) for k in t["kids"])

    def value(t, d):
        if t["leaf"]:
            v = "x" if t["bad"] else 1
            for _ in range(d):          # a leaf above the bottom level: wrap it to the schema's depth
                v = [v]
            return v
        return [value(k, d - 1) for k in t["kids"]]

    def schema_abs(d):
        s = {"t": "int", "value": [], "min": [], "max": []}
        for _ in range(d):
            s = {"t": "list", "type": [s], "elems": [], "len": [], "min_len": [], "max_len": []}
        return s

    n = 0
    for st in core.load_dump(res, only="stack = <<>>"):
        if st["stack"]:
            continue
        tree = st["tree"]
        d = depth(tree)
        if tree["leaf"]:
            continue
        s = schema_abs(d)
        real = am.g_schema(s)
        v_real = value(tree, d)
        ev = valgen.observe_validate(real, v_real)
        if ev.get("timeout"):
            chk.count("re_timeout")
            continue
        ev.update({"id": len(events) + 1, "s": s, "v": am.a_value(v_real), "srepr": safe_repr(real)[:200],
                   "vrepr": safe_repr(v_real)[:200]})
        events.append(ev)
        n += 1
        # the model's paths are exact for leaves at the bottom level; compare those
        model_paths = sorted(tuple(p) for p in [st["heap"][e["pathid"] - 1] for e in st["errors"]])
        real_paths = sorted(tuple(x["ix"] for x in er["path"])[: len(mp)] for er, mp in
                            zip(sorted(ev["errs"], key=lambda e: [x["ix"] for x in e["path"]]), model_paths))
        if len(ev["errs"]) != len(model_paths) or real_paths != model_paths:
            chk.drift += 1
            if len(chk.drift_samples) < 5:
                chk.drift_samples.append({"what": "PathHeap paths differ", "value": safe_repr(v_real),
                                          "model": model_paths, "real": real_paths})
    chk.count("pathheap_traversals", n)
    chk.require(n >= 30, "too few PathHeap traversals (%d)" % n)


def install_plugins():
    """Somebody else's plug-ins live in the same process: a formatter and a validator extension
    declared with `extend=True`, as the library documents for adding *new* public methods.  They
    define a new public method each, and -- for their own use -- private helpers and attributes
    that happen to carry the names of the library's private helpers.  `extend=True` copies public
    callables only (formatter: names without a leading underscore), so nothing the library renders
    or validates may change."""
    import types
    from d42.validation import Formatter
    if getattr(Formatter, "format_verif_plugin_error", None) is not None:
        return
    private = [n for n in dir(Formatter) if n.startswith("_") and not n.startswith("__")
               and callable(getattr(Formatter, n))]
    body = {n: (lambda self, *a, **k: "<plugin helper>") for n in private}
    body["format_verif_plugin_error"] = lambda self, error: "plugin"
    body["_verif_note"] = "not callable"
    types.new_class("VerifFormatterPlugin", (Formatter,), {"extend": True}, lambda ns: ns.update(body))


def run(chk, prop):
    core.setup_repo_path()
    if prop == "C03":
        # formatter plug-ins as transitions: the registry machine restricted to what concerns rendering
        from . import registry
        registry.cases(chk, "C03")
    if prop == "C08":
        # the object every verdict is read from: ValidationResult as a machine (spec/D42Result.tla)
        from . import resultmachine
        resultmachine.cases(chk)
    if prop in ("C03", "C08"):
        install_plugins()
    quick = chk.tier == "quick"
    depth = 2 if quick else 3
    per_seed = 10 if quick else None        # probes sampled per (schema, generated value)
    res = valgen.run_machine(chk, INVS[prop], depth, "const")
    cache = valgen.SchemaCache(chk)
    events = []
    seen = set()
    groups = set()
    for s, tape, g, src in valgen.observed(res):
        seedv = g["v"] if g["ok"] else mutants.VNone
        gk = (valgen.key(s), valgen.key(seedv))
        if gk in groups:
            continue
        groups.add(gk)
        real, why = cache.get(s)
        if real is None:
            continue
        probes = mutants.probes_zoo(seedv) if prop == "C08" else mutants.probes_plain(seedv)
        # (schemas with format-significant text in their keys are few: all their probes are kept)
        sj = core.json.dumps(s)
        special = s["t"] in ("list", "dict", "any", "alias") and (
            "[123" in sj or any('"t": "%s"' % t in sj for t in ("uuid4", "datetime", "date", "bytes")))
        if per_seed is not None and len(probes) > per_seed and not special:
            probes = [probes[0]] + chk.rng.sample(probes[1:], per_seed - 1)
        for v in probes:
            try:
                v_real = am.g_value(v)
                v_abs = am.a_value(v_real)      # what was really passed (dict keys may collapse)
            except am.Unrepresentable:
                chk.count("probe_not_concretisable")
                continue
            k = (gk[0], valgen.key(v_abs))
            if k in seen:
                continue
            seen.add(k)
            ev = valgen.observe_validate(real, v_real)
            if ev.get("timeout"):
                chk.count("re_timeout")
                continue
            ev.update({"id": len(events) + 1, "s": s, "v": v_abs, "srepr": safe_repr(real)[:300],
                       "vrepr": safe_repr(v_real)[:200]})
            events.append(ev)
            chk.count("accepted" if (ev["exc"] == "" and ev["nerrs"] == 0) else
                      ("raised" if ev["exc"] else "rejected"))
            chk.count("errors_total", ev["nerrs"])
            for er in ev["errs"]:
                chk.count("kind_" + er["kind"])
                if er["path"]:
                    chk.count("errors_below_root")
    # short-lived schemas: the same kinds of (schema, value) pairs again, each schema built afresh,
    # used once and dropped (the cache above keeps every schema alive, so object identities are
    # never reused there; here they are, as in code that declares schemas inline)
    recent = [e for e in events if e["s"]["t"] in ("str", "list", "dict", "any", "int", "float")]
    picks = chk.rng.sample(recent, min(len(recent), 400 if quick else 4000))
    for e in picks:
        try:
            temp = am.g_schema(e["s"])
            v_real = am.g_value(e["v"])
        except Exception:
            continue
        ev = valgen.observe_validate(temp, v_real)
        if ev.get("timeout"):
            chk.count("re_timeout")
            continue
        ev.update({"id": len(events) + 1, "s": e["s"], "v": e["v"], "srepr": safe_repr(temp)[:300],
                   "vrepr": safe_repr(v_real)[:200]})
        del temp
        events.append(ev)
        chk.count("short_lived_schema_pairs")
    # ... and the tightest form of it: schemas of one shape that differ in one parameter, declared
    # inline one right after the other (an object freed a moment ago gives its address to the next)
    from . import deep as _deep

    def _str(**kw):
        return dict(_deep.STR0, **kw)
    VS = _deep.VStr
    family = [(_str(alphabet=[VS([97 + k, 98 + k, 99 + k])]), VS([97 + j, 98 + j])) for k in range(6) for j in range(6)] + \
             [(_str(substr=[VS([97 + k])]), VS([97 + j, 120])) for k in range(4) for j in range(4)] + \
             [({"t": "list", "type": [_str(alphabet=[VS([97 + k, 98 + k])])], "elems": [], "len": [], "min_len": [], "max_len": []},
               {"k": "list", "items": [VS([97 + j]), VS([98 + j])]}) for k in range(4) for j in range(4)] + \
             [({"t": "int", "value": [], "min": [{"k": "int", "n": k}], "max": []}, {"k": "int", "n": j}) for k in range(5) for j in range(5)]
    # many errors at once (more than any plausible cap on what is reported)
    int05 = {"t": "int", "value": [], "min": [{"k": "int", "n": 0}], "max": [{"k": "int", "n": 5}]}
    for n in (10, 11, 12, 25):
        family.append(({"t": "list", "type": [int05], "elems": [], "len": [], "min_len": [], "max_len": []},
                       {"k": "list", "items": [VS([122]) if j % 2 else {"k": "int", "n": 9} for j in range(n)]}))
    for rounds in range(3 if quick else 12):
        for s_abs, v_abs in family:
            v_real = am.g_value(v_abs)
            ev = valgen.observe_validate(am.g_schema(s_abs), v_real)
            if ev.get("timeout"):
                chk.count("re_timeout")
                continue
            ev.update({"id": len(events) + 1, "s": s_abs, "v": v_abs, "srepr": "", "vrepr": safe_repr(v_real)[:200]})
            events.append(ev)
            chk.count("inline_schema_pairs")
    # code -> spec, beyond the exhaustive universe: random schemas nested deeper, probed
    # around the values the real generator produces for them under the constant tapes
    from . import deep
    ndeep, ddepth, dprobes = (250, 3, 12) if quick else (4000, 4, 40)
    for s, real in deep.schemas(chk.rng, ndeep, ddepth):
        seeds_abs = []
        for tape in (["lo"], ["hi"]):
            exc, val = valgen.real_fake(real, tape)
            if not exc:
                try:
                    seeds_abs.append(am.a_value(val))
                except am.Unrepresentable:
                    pass
        if not seeds_abs:
            seeds_abs = [mutants.VNone]
        for seedv in mutants.dedup(seeds_abs):
            probes = mutants.probes_zoo(seedv) if prop == "C08" else mutants.probes_plain(seedv)
            if len(probes) > dprobes:
                probes = [probes[0]] + chk.rng.sample(probes[1:], dprobes - 1)
            for v in probes:
                try:
                    v_real = am.g_value(v)
                    v_abs = am.a_value(v_real)
                except am.Unrepresentable:
                    continue
                ev = valgen.observe_validate(real, v_real)
                if ev.get("timeout"):
                    chk.count("re_timeout")
                    continue
                ev.update({"id": len(events) + 1, "s": s, "v": v_abs, "srepr": safe_repr(real)[:300],
                           "vrepr": safe_repr(v_real)[:200]})
                events.append(ev)
                chk.count("deep_pairs")
                for er in ev["errs"]:
                    chk.count("kind_" + er["kind"])
                    if len(er["path"]) >= 2:
                        chk.count("errors_two_levels_down")
    if prop == "C03":
        pathheap_cases(chk, events)
    chk.require(len(events) >= 5000, "fewer than 5000 validate() calls (%d)" % len(events))
    chk.require(chk.counts.get("accepted", 0) >= 300 and chk.counts.get("rejected", 0) >= 1000,
                "verdict mix too thin: %r" % chk.counts)
    if prop == "C03":
        kinds = [k for k in chk.counts if k.startswith("kind_")]
        chk.require(len(kinds) >= 14, "only %d error kinds exercised: %s" % (len(kinds), kinds))
        chk.require(chk.counts.get("errors_below_root", 0) >= 500, "too few nested errors")
    slim = [{k: e[k] for k in ("id", "s", "v", "exc", "nerrs", "eq", "rep", "errs", "facts", "vof",
                               "vof_lines", "fmt_lines", "srep", "serrs", "slocated", "sexc")} for e in events]
    for e in slim:
        if not isinstance(e["eq"], bool):
            e["eq"] = not (e["nerrs"] == 0)     # `==` raised: forces the eq clause to fail
    verdicts = chk.validate_events("Trace_Val", slim, extra_constants={"Prop": '"%s"' % prop})
    chk.absorb(events, verdicts, describe)
    for e in events[:: max(1, len(events) // 5)][:5]:
        chk.sample(describe(e))
    chk.assumptions = [
        "schema universe of spec/MC_Val.tla (DSL-reachable scalars, depth <= %d; containers of "
        "spec/D42SchemaUniverse.tla, nesting <= 2)" % depth,
        "probe values: the generated value, its one-step edits at every depth, and the %s replacement set%s"
        % ("hostile-zoo" if prop == "C08" else "unrelated-value",
           "; %d probes sampled per (schema, generated value) with VERIF_SEED" % per_seed if per_seed else ""),
        "NaN as a probe is outside C02's ordered number domain (inside C08's zoo)",
    ]
    chk.exhaustive = per_seed is None
    return chk.finish(rule="(schema, value) pairs: schemas from the machine's universe, values from the probe "
                           "construction; non-trivial = a distinct pair actually passed to the real validate()",
                      extra={"constants": {"Depth": depth, "probes_per_seed": per_seed or "all"}})
