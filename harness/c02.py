"""C02  Validation verdict equals the declared constraints, no more, no less.

(A) spec/MC_Val.tla: for every schema of the universe and every probe value derived from its
generated values (the value, every one-step edit at every depth, unrelated values), the
operational validator model reports no errors exactly when the declarative Conforms holds.
(B) the same (schema, generated value) cases are replayed: the harness builds the probes and
calls the real validate() and `schema == value`.
(C) spec/Trace_Val.tla (Prop = "C02") decides each recorded verdict against Conforms.
"""
from . import valcommon


def main(chk):
    return valcommon.run(chk, "C02")
