"""C13  Schema combinators mean what their parts mean.

(A) spec/MC_Comb.tla: a | b, schema.any(a | b, c), d1 + d2, make_required(d, keys), alias,
d[key]/iteration over operand universes; invariants compare Conforms of the result with the
meaning of the parts on probe values.
(B) every combination is replayed with the real operators; real verdicts of operands and
result are taken on probe values (generated from each under the constant tapes, plus one-step
edits).  (C) spec/Trace_Comb.tla decides the recorded observations.
"""
from . import absmap as am
from .common import safe_repr
from . import core, mutants, valgen
from .common import try_abs
from .subcommon import ok_validate

CONST_TAPES = [["lo"], ["lo1"], ["hi1"], ["hi"]]
ITEM_KEYS = [{"k": "str", "s": [97]}, {"k": "str", "s": [98]}, {"k": "int", "n": 1}, {"k": "none"},
             {"k": "ellipsis"}, {"k": "str", "s": [122]}, {"k": "obj", "cls": "tuple12", "isa": [], "base": []}]


def describe(e):
    return {"op": e["op"], "a": e.get("arepr"), "b": e.get("brepr"), "c": e.get("crepr"), "keys": e["ks"],
            "exc": e["exc"], "result": e.get("rrepr"),
            "probes_sample": e["probes"][:3], "items": e["items"], "iter": e["iter"]}


def gen_values(schemas):
    vals = []
    for sch in schemas:
        for tape in CONST_TAPES:
            exc, w = valgen.real_fake(sch, tape)
            if not exc:
                try:
                    vals.append(am.a_value(w))
                except am.Unrepresentable:
                    pass
    return mutants.dedup(vals)


def observe(op, a, b, c, ks, nprobes, rng):
    import d42
    from d42.utils import make_required
    ev = {"op": op, "exc": "", "rep": False, "res": [], "probes": [], "gens": [], "items": [], "iter": [],
          "arepr": safe_repr(a)[:200], "brepr": safe_repr(b)[:200], "crepr": safe_repr(c)[:200]}
    res = None
    try:
        if op == "union":
            res = a | b
        elif op == "any3":
            res = d42.schema.any(a | b, c)
        elif op in ("add", "add_bad"):
            res = a + b
        elif op == "make_required":
            res = make_required(a, None if not ks else [am.g_value(k) for k in ks[0]])
        elif op == "alias":
            res = d42.schema.alias("T", a)
        elif op == "getitem":
            res = a
    except BaseException as e:  # noqa
        ev["exc"] = type(e).__name__
        return ev
    ev["rep"], ev["res"] = try_abs(am.a_schema, res)
    ev["rrepr"] = safe_repr(res)[:300]
    parts = {"union": [a, b], "any3": [a, b, c], "add": [a, b], "make_required": [a], "alias": [a],
             "getitem": []}.get(op, [])
    seeds = gen_values(parts + [res])
    probes = []
    for g in seeds:
        probes += [g] + mutants.mutants(g, mutants.UNRELATED, mutants.EXTRA_KEYS)
    probes = mutants.dedup(probes)
    if nprobes is not None and len(probes) > nprobes:
        probes = seeds + rng.sample(probes, nprobes)
    for w in probes:
        try:
            w_real = am.g_value(w)
            w_abs = am.a_value(w_real)
        except am.Unrepresentable:
            continue
        ev["probes"].append({"w": w_abs, "oks": [ok_validate(a, w_real), ok_validate(b, w_real),
                                                 ok_validate(c, w_real), ok_validate(res, w_real)]})
    for tape in CONST_TAPES:
        exc, w = valgen.real_fake(res, tape)
        ev["gens"].append({"exc": exc, "vok": (not exc) and ok_validate(res, w)})
    if op == "getitem":
        from niltype import Nil
        keys = a.props.get("keys")
        for k in ITEM_KEYS:
            kr = am.g_value(k)
            it = {"key": k, "exc": "", "same": False}
            try:
                got = a[kr]
                it["same"] = keys is not Nil and kr in keys and got is keys[kr][0]
            except BaseException as e:  # noqa
                it["exc"] = type(e).__name__
            ev["items"].append(it)
        it_keys = list(a)
        ev["iter"] = [am.a_value(k) for k in it_keys]
        if list(a.keys()) != it_keys:
            ev["iter"] = [{"k": "str", "s": [0]}]     # keys() and iteration disagree: cannot match
    return ev


def main(chk):
    core.setup_repo_path()
    quick = chk.tier == "quick"
    nprobes = 40 if quick else None
    cfg = {"constants": {"Rich": "FALSE" if quick else "TRUE"},
           "invariants": ["C13_Union", "C13_NestedUnionFlattens", "C13_Add", "C13_AddBadOperand",
                          "C13_MakeRequired", "C13_Alias", "C13_GetItem", "C13_CombinedGenerates"]}
    res = chk.model_check("MC_Comb", cfg, dump=True)
    cache = valgen.SchemaCache(chk)
    events = []
    for st in core.load_dump(res, only='op = '):
        if "ok" in st["res"] and st["res"].get("exc") == "none":
            continue          # the initial state of each combination
        op = str(st["op"])
        reals = []
        for x in (st["a"], st["b"], st["c"]):
            r, why = cache.get(x)
            reals.append(r)
        if any(r is None for r in reals):
            continue
        ev = observe(op, reals[0], reals[1], reals[2], st["ks"], nprobes, chk.rng)
        ev.update({"id": len(events) + 1, "a": st["a"], "b": st["b"], "c": st["c"], "ks": st["ks"]})
        events.append(ev)
        chk.count("op_" + op)
    # code -> spec: the same combinators over random declarations nested up to three levels
    from . import deep
    none_abs = {"t": "none"}
    none_real = cache.get(none_abs)[0]
    ndeep = 250 if quick else 2500
    pool = deep.schemas(chk.rng, ndeep * 3, 2) + deep.schemas(chk.rng, ndeep, 3)
    dicts = [p for p in pool if p[0]["t"] == "dict" and p[0]["keys"]]
    for i in range(ndeep):
        (sa, ra), (sb, rb), (sc, rc) = (chk.rng.choice(pool) for _ in range(3))
        cases = [("union", (sa, ra), (sb, rb), (none_abs, none_real), []),
                 ("any3", (sa, ra), (sb, rb), (sc, rc), []),
                 ("alias", (sa, ra), (none_abs, none_real), (none_abs, none_real), [])]
        if len(dicts) >= 2:
            (da, rda), (db, rdb) = chk.rng.choice(dicts), chk.rng.choice(dicts)
            names = [p["key"] for p in da["keys"][0] if p["key"].get("k") != "ellipsis"]
            ks = [] if (i % 3 == 0 or not names) else [chk.rng.sample(names, chk.rng.randrange(1, len(names) + 1))]
            cases += [("add", (da, rda), (db, rdb), (none_abs, none_real), []),
                      ("make_required", (da, rda), (none_abs, none_real), (none_abs, none_real), ks),
                      ("getitem", (da, rda), (none_abs, none_real), (none_abs, none_real), [])]
        for op, (xa, xra), (xb, xrb), (xc, xrc), ks in cases:
            # operands are described as they read back *now*: two regex programs can print the same text
            # (`[^a]`: a negated class of one literal, or "not the literal a"), and the pool was built earlier
            xa, xb, xc = am.a_schema(xra), am.a_schema(xrb), am.a_schema(xrc)
            ev = observe(op, xra, xrb, xrc, ks, 25 if quick else 60, chk.rng)
            ev.update({"id": len(events) + 1, "a": xa, "b": xb, "c": xc, "ks": ks})
            events.append(ev)
            chk.count("deep_" + op)
    for op in ("union", "any3", "add", "make_required", "alias", "getitem", "add_bad"):
        chk.require(chk.counts.get("op_" + op, 0) > 0, "no combination replayed for " + op)
    chk.require(len(events) >= 1000, "fewer than 1000 combinations (%d)" % len(events))
    slim = [{k: e[k] for k in ("id", "op", "a", "b", "c", "ks", "exc", "rep", "res", "probes", "gens",
                               "items", "iter")} for e in events]
    verdicts = chk.validate_events("Trace_Comb", slim)
    chk.absorb(events, verdicts, describe)
    byop = {}
    for e in events:
        byop.setdefault(e["op"], e)
    for e in list(byop.values())[:6]:
        chk.sample(describe(e))
    chk.exhaustive = nprobes is None
    chk.assumptions = ["operand universes of spec/MC_Comb.tla (Rich = %s)" % (not quick),
                       "probe values: generated from every operand and from the result under the constant tapes, "
                       "plus their one-step edits" + ("" if nprobes is None else " (%d sampled per case)" % nprobes)]
    return chk.finish(rule="every (operator, operands) combination of the machine; non-trivial = a combination "
                           "replayed on the real operators",
                      extra={"constants": {"Rich": not quick, "probes": nprobes or "all"}})
