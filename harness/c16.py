"""C16  Custom schema types behave like built-ins in every position.

(A) spec/MC_Custom.tla: every tree of the universe with the sub-schema at one position (or at
all positions) replaced by custom(inner); the specification's operators are defined to see
through custom nodes, and TLC checks errors, generation and substitution coincide with the
plain tree.  (B) both trees are built on the real code -- the wrapped one with a CustomSchema
subclass (harness/customtype.py) registered through register_type -- and compared on
validation errors (kind, path, reported value, message), fake() under the constant tapes,
repr and substitute().  (C) spec/Trace_Custom.tla decides the recorded comparisons.
"""
from . import absmap as am
from .common import safe_repr
from . import core, mutants, valgen
from .subcommon import ok_validate

CONST_TAPES = [["lo"], ["lo1"], ["hi1"], ["hi"]]


def strip(x):
    if not isinstance(x, dict) or "t" not in x:
        return x
    t = x["t"]
    if t == "custom":
        return strip(x["inner"])
    y = dict(x)
    if t == "list":
        y["type"] = [strip(e) for e in x["type"]]
        y["elems"] = [[strip(e) for e in x["elems"][0]]] if x["elems"] else []
    elif t == "dict":
        y["keys"] = [[dict(k, val=strip(k["val"])) for k in x["keys"][0]]] if x["keys"] else []
    elif t == "any":
        y["types"] = [[strip(e) for e in x["types"][0]]] if x["types"] else []
    elif t == "alias":
        y["type"] = strip(x["type"])
    return y


def abs_errors(real, v_real):
    import d42
    from d42.validation import Formatter
    res = d42.validate(real, v_real)
    errs, msgs = [], []
    for e in res.get_errors():
        a = am.a_error(e, v_real)
        if a["kind"] == "schema_mismatch":
            a["types"] = [strip(t) for t in a["types"]]
        errs.append(a)
        msgs.append(e.format(Formatter()))
    return errs, msgs


def probe_values(real, n, rng):
    seeds = []
    for tape in CONST_TAPES:
        exc, w = valgen.real_fake(real, tape)
        if not exc:
            try:
                seeds.append(am.a_value(w))
            except am.Unrepresentable:
                pass
    probes = []
    for g in mutants.dedup(seeds):
        probes += [g] + mutants.mutants(g, mutants.UNRELATED, mutants.EXTRA_KEYS)
    probes = mutants.dedup(probes)
    if n is not None and len(probes) > n:
        probes = mutants.dedup(seeds)[:2] + rng.sample(probes, n)
    out = []
    for w in probes:
        try:
            out.append(am.g_value(w))
        except am.Unrepresentable:
            pass
    return out


def placeholder_variants(v, depth=2):
    """the value with `...` standing in for one member (substitution's "leave as declared"), also
    between two kept members of a list"""
    out = []
    if isinstance(v, list):
        for i in range(len(v)):
            out.append(v[:i] + [...] + v[i + 1:])
            if depth:
                out += [v[:i] + [x] + v[i + 1:] for x in placeholder_variants(v[i], depth - 1)]
        for i in range(1, len(v)):
            out.append(v[:i] + [...] + v[i:])
        if len(v) == 1:
            out += [[v[0], ..., v[0]], [..., v[0]], [v[0], ...]]
    elif isinstance(v, dict):
        for k in v:
            out.append({**v, k: ...})
            if depth:
                out += [{**v, k: x} for x in placeholder_variants(v[k], depth - 1)]
    return out


def compare(plain, wrapped, nvals, rng):
    import d42
    ev = {"repr_same": repr(plain) == repr(wrapped), "vals": [], "gens": [], "subs": [],
          "prepr": safe_repr(plain)[:300], "wrepr": safe_repr(wrapped)[:300]}
    values = probe_values(plain, nvals, rng)
    for v in values:
        rec = {"errs_same": False, "msgs_same": False}
        try:
            ep, mp = abs_errors(plain, v)
            ew, mw = abs_errors(wrapped, v)
            rec["errs_same"] = ep == ew
            rec["msgs_same"] = mp == mw
        except am.Unrepresentable:
            rec = {"errs_same": True, "msgs_same": True}
        except Exception:
            pass
        ev["vals"].append(rec)
    for tape in CONST_TAPES:
        exc_p, vp = valgen.real_fake(plain, tape)
        exc_w, vw = valgen.real_fake(wrapped, tape)
        same = False
        if not exc_p and not exc_w:
            try:
                same = am.a_value(vp) == am.a_value(vw)
            except am.Unrepresentable:
                same = True       # clock / OS draws
        ev["gens"].append({"exc_w": exc_w, "exc_p": exc_p, "same_value": same,
                           "plain_accepts": (not exc_w) and ok_validate(plain, vw),
                           # what the tree of built-ins generates for itself conforms (it does not for the
                           # contradictory declarations of C01's open findings: nothing to compare with then)
                           "plain_own_ok": (not exc_p) and ok_validate(plain, vp)})
    sub_values = values[: (8 if nvals else 40)]
    holes = []
    for v in sub_values[:4]:
        holes += placeholder_variants(v)
    nan = float("nan")
    odd = [nan, [nan], {"a": nan}, float("inf"), [1, nan]]        # values a result cannot be re-validated against
    for v in sub_values + holes[: (12 if nvals else 60)] + odd:
        rec = {"exc_w": "", "exc_p": "", "res_same": False, "repr_same": False}
        rp = rw = None
        try:
            rp = d42.substitute(plain, v)
        except BaseException as e:  # noqa
            rec["exc_p"] = type(e).__name__
        try:
            rw = d42.substitute(wrapped, v)
        except BaseException as e:  # noqa
            rec["exc_w"] = type(e).__name__
        if rp is not None and rw is not None:
            try:
                rec["res_same"] = strip(am.a_schema(rw)) == am.a_schema(rp)
            except am.Unrepresentable:
                rec["res_same"] = True
            rec["repr_same"] = repr(rw) == repr(rp)
        ev["subs"].append(rec)
    return ev


def describe(e):
    return {"plain": e.get("prepr"), "wrapped_schema": e["w"], "repr_same": e["repr_same"],
            "vals_differing": sum(1 for v in e["vals"] if not (v["errs_same"] and v["msgs_same"])),
            "gens": e["gens"], "subs_differing": [x for x in e["subs"] if x["exc_w"] != x["exc_p"] or
                                                  (not x["exc_w"] and not (x["res_same"] and x["repr_same"]))][:3]}


def any_of_wrapped_any_cases():
    """schema.any(custom(schema.any(a, b)), c) against schema.any(schema.any(a, b), c): built through
    the DSL, where d42 flattens nested unions"""
    import d42
    from . import customtype
    s = d42.schema
    out = []
    for a, b, c in ((s.int(1), s.str("ab"), s.none), (s.int.min(0).max(5), s.none, s.str("ab"))):
        plain = s.any(s.any(a, b), c)
        wrapped = s.any(customtype.wrap(s.any(a, b)), c)
        out.append((plain, wrapped))
    return out


def main(chk):
    core.setup_repo_path()
    quick = chk.tier == "quick"
    nvals = 12 if quick else None
    cfg = {"constants": {"Rich": "FALSE" if quick else "TRUE"},
           "invariants": ["C16_StripRecoversTree", "C16_SameErrors", "C16_SameGeneration", "C16_SameSubstitution"]}
    res = chk.model_check("MC_Custom", cfg, dump=True)
    cache = valgen.SchemaCache(chk)
    events = []
    for st in core.load_dump(res, only='"wrapped"'):
        if st["phase"] != "wrapped":
            continue
        plain, why = cache.get(st["s"])
        wrapped, why2 = cache.get(st["w"])
        if plain is None or wrapped is None:
            chk.count("not_buildable")
            continue
        ev = compare(plain, wrapped, nvals, chk.rng)
        ev.update({"id": len(events) + 1, "s": st["s"], "w": st["w"], "flat_pair": False})
        events.append(ev)
        chk.count("mask_" + str(st["mask"]))
        chk.count("tree_" + st["s"]["t"])
    for plain, wrapped in any_of_wrapped_any_cases():
        ev = compare(plain, wrapped, nvals, chk.rng)
        ev.update({"id": len(events) + 1, "s": am.a_schema(plain), "w": am.a_schema(wrapped), "flat_pair": True})
        events.append(ev)
        chk.count("any_of_wrapped_any")
    # a forwarding type inside a forwarding type, ten deep; and all of it once more after a burst of
    # generations that end in an exception *inside* a forwarding type (the module-level generator is
    # shared: whatever such a failure leaves behind is there for every later generation)
    str0 = {"t": "str", "value": [], "len": [], "min_len": [], "max_len": [], "alphabet": [{"k": "str", "s": []}],
            "substr": [], "pattern": []}
    int15 = {"t": "int", "value": [], "min": [{"k": "int", "n": 1}], "max": [{"k": "int", "n": 5}]}
    towers = []
    for base in (int15, {"t": "list", "type": [int15], "elems": [], "len": [{"k": "int", "n": 2}], "min_len": [],
                         "max_len": []},
                 {"t": "dict", "keys": [[{"key": {"k": "str", "s": [97]}, "val": int15, "opt": False}]]}):
        w = base
        for _ in range(10):
            w = {"t": "custom", "inner": w}
        towers.append((base, w))
    for burst in (False, True):
        if burst:
            import d42
            failing = am.g_schema({"t": "custom", "inner": {"t": "list", "type": [{"t": "custom", "inner": str0}],
                                                              "elems": [], "len": [{"k": "int", "n": 1}],
                                                              "min_len": [], "max_len": []}})
            for _ in range(12):
                try:
                    d42.fake(failing)
                except Exception:
                    pass
            chk.count("failing_generations_through_wrappers", 12)
        for base, w in towers:
            plain, wrapped = am.g_schema(base), am.g_schema(w)
            ev = compare(plain, wrapped, nvals or 40, chk.rng)
            ev.update({"id": len(events) + 1, "s": base, "w": w, "flat_pair": False})
            events.append(ev)
            chk.count("wrapper_towers")
    # code -> spec: random declarations nested three or four levels with forwarding types wherever the
    # random builder put them (several in one tree, a wrapper inside a wrapper, under aliases, as
    # union alternatives), each against the same tree with every wrapper removed
    from . import deep
    ndeep, made = (300 if quick else 3000), 0
    for i in range(ndeep * 30):
        if made >= ndeep:
            break
        b = deep.build(chk.rng, 3 + i % 2)
        if b is None or strip(b[0]) == b[0]:
            continue
        w_abs, wrapped = b
        s_abs = strip(w_abs)
        try:        # (not through the cache: removing a wrapper around a union leaves a union inside a
            #        union, which the DSL flattens -- the plain tree is whatever that builds)
            plain = am.g_schema(s_abs)
            s_back = am.a_schema(plain)
        except Exception:
            continue
        ev = compare(plain, wrapped, nvals or 40, chk.rng)
        ev.update({"id": len(events) + 1, "s": s_back, "w": w_abs, "flat_pair": s_back != s_abs})
        events.append(ev)
        made += 1
        chk.count("deep_random_trees")
    chk.require(len(events) >= 1000, "fewer than 1000 wrapped trees (%d)" % len(events))
    for t in ("list", "dict", "any", "alias"):
        chk.require(chk.counts.get("tree_" + t, 0) > 0, "no wrapped tree of type " + t)
    slim = [{k: e[k] for k in ("id", "s", "w", "flat_pair", "repr_same", "vals", "gens", "subs")} for e in events]
    verdicts = chk.validate_events("Trace_Custom", slim)
    chk.absorb(events, verdicts, describe)
    for e in events[:: max(1, len(events) // 4)][:4]:
        chk.sample(describe(e))
    from . import registry
    registry.cases(chk, "C16")
    chk.exhaustive = nvals is None
    chk.assumptions = ["the forwarding CustomSchema of harness/customtype.py (forwards __validate__/__generate__/"
                       "__represent__/__substitute__ with path, indent and **kwargs)",
                       "trees of spec/MC_Custom.tla, one wrapped position or all positions per tree"]
    return chk.finish(rule="(tree, wrapped positions) pairs built on the real code; non-trivial = a pair compared on "
                           "validation, generation, printing and substitution",
                      extra={"constants": {"Rich": not quick, "values_per_tree": nvals or "all"}})
