"""Runs in a fresh interpreter with its own PYTHONHASHSEED: prints every schema of the job file
(built in the same order, through the same construction routes)."""
import json
import os
import sys

sys.dont_write_bytecode = True
sys.path.insert(0, os.path.dirname(os.path.dirname(os.path.abspath(__file__))))


def main(job_path, out_path):
    from harness import core
    core.setup_repo_path()
    from harness import absmap as am
    from harness.common import safe_repr
    out = []
    for s in json.load(open(job_path)):
        try:
            out.append(safe_repr(am.g_schema(s)))
        except Exception as e:  # noqa
            out.append("<build raised %s>" % type(e).__name__)
    json.dump(out, open(out_path, "w"))


if __name__ == "__main__":
    main(sys.argv[1], sys.argv[2])
