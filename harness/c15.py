"""C15  Schema equality is structural; schema == value means the value validates.

(A) spec/MC_Eq.tla: over the equality universe (DSL-reachable scalars, containers with the
bare any among their members, aliases, custom wrappers) the model of == (spec/D42Equal.tla)
is reflexive, symmetric, transitive, and equal schemas give identical verdicts on all probes.
(B) all pairs of the universe are compared with the real == and != (both directions);
(C) spec/Trace_Eq.tla decides the recorded relations and the verdict comparison of every
pair the real code calls equal.
"""
from . import absmap as am
from .common import safe_repr
from . import core, mutants, valgen
from .subcommon import ok_validate

CONST_TAPES = [["lo"], ["lo1"], ["hi1"], ["hi"]]


def _safe(f):
    try:
        return f()
    except Exception:
        return False


def optional_marker_ok():
    """optional(a) == optional(b) iff a == b; equal markers hash alike; a marker is not its key"""
    import d42
    keys = ["a", "b", "", 1, True, 1.0, None, (1, 2), b"a", 0, False]
    try:
        for x in keys:
            for y in keys:
                ox, oy = d42.optional(x), d42.optional(y)
                if bool(ox == oy) != bool(x == y) or bool(ox != oy) == bool(ox == oy):
                    return False
                if x == y and hash(ox) != hash(oy):
                    return False
            if d42.optional(x) == x or x == d42.optional(x):
                return False
        try:
            d42.optional(...)
            return False
        except TypeError:
            pass
    except Exception:
        return False
    return True


def describe(e):
    return {"schema": e["a"], "repr": e.get("arepr"), "refl": e["refl"], "rebuilt_eq": e["rebuilt_eq"],
            "ne_ok": e["ne_ok"], "sym_ok": e["sym_ok"], "trans_ok": e["trans_ok"], "value_ok": e["value_ok"],
            "equal_to": [x.get("brepr") for x in e["equals"]],
            "disagreements": [[p for p in x["probes"] if p["ok_a"] != p["ok_b"]][:2] for x in e["equals"]]}


def probe_values(real, nprobes, rng):
    seeds = []
    for tape in CONST_TAPES:
        exc, w = valgen.real_fake(real, tape)
        if not exc:
            try:
                seeds.append(am.a_value(w))
            except am.Unrepresentable:
                pass
    probes = []
    for g in mutants.dedup(seeds):
        probes += [g] + mutants.mutants(g, mutants.UNRELATED, mutants.EXTRA_KEYS)
    probes = mutants.dedup(probes)
    if nprobes is not None and len(probes) > nprobes:
        probes = rng.sample(probes, nprobes)
    out = []
    for w in probes:
        try:
            w_real = am.g_value(w)
            out.append((am.a_value(w_real), w_real))
        except am.Unrepresentable:
            pass
    return out


def main(chk):
    core.setup_repo_path()
    quick = chk.tier == "quick"
    depth = 2 if quick else 3
    nprobes = 30 if quick else 120
    cfg = {"constants": {"Depth": str(depth)},
           "invariants": ["C15_Reflexive", "C15_Symmetric", "C15_Transitive", "C15_EqualMeansSameVerdicts"]}
    res = chk.model_check("MC_Eq", cfg, dump=True)
    universe = [st["a"] for st in core.load_dump(res, only='"checked"') if st["phase"] == "checked"]
    cache = valgen.SchemaCache(chk)
    reals = []
    for a in universe:
        r, why = cache.get(a)
        if r is not None:
            reals.append((a, r))
    chk.require(len(reals) >= 500, "universe too small (%d)" % len(reals))
    n = len(reals)
    # the full relation on the real objects
    eq = [[False] * n for _ in range(n)]
    ne_bad = [False] * n
    for i, (_, x) in enumerate(reals):
        for j, (_, y) in enumerate(reals):
            try:
                e = bool(x == y)
                eq[i][j] = e
                if bool(x != y) == e:
                    ne_bad[i] = True
            except Exception:          # a comparison that raises is neither equal nor a proper negation
                eq[i][j] = False
                ne_bad[i] = True
    chk.count("pairs_compared", n * n)
    events = []
    opt_ok = optional_marker_ok()
    for i, (a, x) in enumerate(reals):
        rebuilt = am.g_schema(a)
        probes = probe_values(x, nprobes, chk.rng)
        ev = {"id": i + 1, "a": a, "arepr": safe_repr(x)[:200],
              "refl": eq[i][i], "optional_ok": opt_ok,
              "rebuilt_eq": _safe(lambda: bool(x == rebuilt) and not bool(x != rebuilt) and bool(rebuilt == x)),
              "ne_ok": not ne_bad[i],
              "sym_ok": all(eq[i][j] == eq[j][i] for j in range(n)),
              "trans_ok": True, "value_ok": True, "equals": []}
        for j in range(n):
            if eq[i][j]:
                for k in range(n):
                    if eq[j][k] and not eq[i][k]:
                        ev["trans_ok"] = False
        for w_abs, w_real in probes:
            try:
                if bool(x == w_real) != ok_validate(x, w_real):
                    ev["value_ok"] = False
            except Exception:
                ev["value_ok"] = False
        for j in range(n):
            if j != i and eq[i][j]:
                b, y = reals[j]
                pr = probes + probe_values(y, nprobes, chk.rng)
                ev["equals"].append({"b": b, "brepr": safe_repr(y)[:200],
                                     "probes": [{"w": w_abs, "ok_a": ok_validate(x, w_real),
                                                 "ok_b": ok_validate(y, w_real)} for w_abs, w_real in pr]})
                chk.count("distinct_pairs_equal")
        events.append(ev)
        chk.count("type_" + a["t"])
    # the relation must not depend on what has been done with the schemas in the meantime: every
    # schema is put to every public use, then the whole relation is taken again
    from .common import exercise
    for _, x in reals:
        exercise(x)
    for i, (_, x) in enumerate(reals):
        row_same = True
        for j, (_, y) in enumerate(reals):
            try:
                if bool(x == y) != eq[i][j] or bool(x != y) == eq[i][j]:
                    row_same = False
            except Exception:
                row_same = False
        events[i]["stable"] = row_same
    # real binary floats (code -> spec only): float schemas pinned near decimal ties, with a precision;
    # whichever of them compare equal must judge the tie, its neighbours and each other's values alike
    import d42
    from . import deep
    dummy = {"t": "float", "value": [], "min": [], "max": [], "precision": []}
    w0 = {"k": "float", "q": 0, "sp": "fin"}
    for v, p in deep.TIE_VALUES:
        step = 10.0 ** -p
        cands = sorted({v, round(v, p), round(v, p) + step, round(v, p) - step, v + step / 2, v - step / 2})
        try:
            fam = [d42.schema.float(c).precision(p) for c in cands]
        except Exception:
            continue
        for i, x in enumerate(fam):
            ev = {"id": len(events) + 1, "a": dummy, "arepr": safe_repr(x), "refl": _safe(lambda: bool(x == x)),
                  "optional_ok": True, "stable": True,
                  "rebuilt_eq": _safe(lambda: bool(x == d42.schema.float(cands[i]).precision(p))),
                  "ne_ok": True, "sym_ok": True, "trans_ok": True, "value_ok": True, "equals": []}
            for j, y in enumerate(fam):
                e1, e2 = _safe(lambda: bool(x == y)), _safe(lambda: bool(y == x))
                if e1 != e2:
                    ev["sym_ok"] = False
                if _safe(lambda: bool(x != y)) == e1:
                    ev["ne_ok"] = False
                if j != i and e1:
                    ev["equals"].append({"b": dummy, "brepr": safe_repr(y),
                                         "probes": [{"w": w0, "ok_a": ok_validate(x, c), "ok_b": ok_validate(y, c)}
                                                    for c in cands]})
            events.append(ev)
            chk.count("real_float_schemas")
    slim = [{k: e[k] for k in ("id", "a", "optional_ok", "stable", "refl", "rebuilt_eq", "ne_ok", "sym_ok", "trans_ok", "value_ok",
                               "equals")} for e in events]
    for e in slim:
        e["equals"] = [{"b": x["b"], "probes": x["probes"]} for x in e["equals"]]
    verdicts = chk.validate_events("Trace_Eq", slim, extra_constants={"Depth": str(depth)})
    chk.absorb(events, verdicts, describe)
    for e in events[:: max(1, len(events) // 4)][:4]:
        chk.sample(describe(e))
    chk.assumptions = ["equality universe of spec/D42Equal.tla EqUniverse(%d): %d schemas, all %d ordered pairs "
                       "compared on the real objects" % (depth, n, n * n),
                       "single-parameter variants are members of the universe (every DSL argument of "
                       "spec/D42DslUniverse.tla, every member/flag/marker combination of the container shapes)"]
    return chk.finish(rule="one event per schema of the universe holding its relation to every other schema; "
                           "non-trivial = a schema whose row of the real ==/!= relation was recorded",
                      extra={"constants": {"Depth": depth, "universe": n}})
