"""Run TLC on a module of /verif/spec and parse what it reports."""
import os
import re
import shutil
import subprocess
import time

VERIF = os.path.dirname(os.path.dirname(os.path.abspath(__file__)))
SPEC = os.path.join(VERIF, "spec")
# VERIF_WORK_TAG keeps concurrent runs (seeded-change evaluation) apart
WORK = os.path.join(VERIF, ".work" + (("_" + os.environ["VERIF_WORK_TAG"]) if os.environ.get("VERIF_WORK_TAG") else ""))
JAR = "/opt/veriftools/tla/tla2tools.jar:/opt/veriftools/tla/CommunityModules-deps.jar"


class TlcError(Exception):
    """TLC itself failed (parse error, evaluation error, crash): machinery failure"""


def workdir(name):
    d = os.path.join(WORK, name)
    shutil.rmtree(d, ignore_errors=True)
    os.makedirs(d)
    return d


def _cfg_text(cfg):
    """cfg: dict with keys init,next | spec, invariants, properties, constants (name->tla text),
    constraint, view, postcondition, check_deadlock"""
    lines = []
    if "spec" in cfg:
        lines.append("SPECIFICATION %s" % cfg["spec"])
    else:
        lines.append("INIT %s" % cfg.get("init", "Init"))
        lines.append("NEXT %s" % cfg.get("next", "Next"))
    for name, val in cfg.get("constants", {}).items():
        lines.append("CONSTANT %s = %s" % (name, val))
    for name, val in cfg.get("overrides", {}).items():
        lines.append("CONSTANT %s <- %s" % (name, val))
    for inv in cfg.get("invariants", []):
        lines.append("INVARIANT %s" % inv)
    for p in cfg.get("properties", []):
        lines.append("PROPERTY %s" % p)
    for c in cfg.get("constraints", []):
        lines.append("CONSTRAINT %s" % c)
    for c in cfg.get("action_constraints", []):
        lines.append("ACTION_CONSTRAINT %s" % c)
    if "view" in cfg:
        lines.append("VIEW %s" % cfg["view"])
    if "postcondition" in cfg:
        lines.append("POSTCONDITION %s" % cfg["postcondition"])
    lines.append("CHECK_DEADLOCK %s" % ("TRUE" if cfg.get("check_deadlock") else "FALSE"))
    return "\n".join(lines) + "\n"


_RE_STATES = re.compile(r"(\d+) states generated, (\d+) distinct states found, (\d+) states left")
_RE_DEPTH = re.compile(r"The depth of the complete state graph search is (\d+)")
_RE_INV = re.compile(r"Error: Invariant (\S+) is violated")
_RE_ACTPROP = re.compile(r"Error: Action property (\S+)")
_RE_COV = re.compile(r"^<(\w+) line (\d+), col (\d+) to line (\d+), col (\d+) of module (\w+)>: (\d+):(\d+)", re.M)


class TlcResult:
    def __init__(self):
        self.rc = None
        self.out = ""
        self.generated = 0
        self.distinct = 0
        self.queue = 0
        self.depth = 0
        self.violated = None
        self.error = None
        self.coverage = {}
        self.wall = 0.0
        self.dump = None
        self.prints = []

    @property
    def ok(self):
        return self.violated is None and self.error is None

    def summary(self):
        return {"states": self.distinct, "transitions": self.generated, "depth": self.depth,
                "wall_s": round(self.wall, 2)}


def run(module, cfg, name, workers=16, dump=False, coverage=False, simulate=None, depth=None,
        env=None, timeout=3600, seed=None, extra=None, heap="8g", dfid=None):
    """module: module name in spec/ (no .tla). Returns TlcResult. Raises TlcError on machinery
    failure (anything that is neither a clean finish nor a property violation)."""
    wd = workdir(name)
    cfg_path = os.path.join(wd, module + ".cfg")
    with open(cfg_path, "w") as f:
        f.write(_cfg_text(cfg))
    jtmp = os.path.join(wd, "jtmp")          # TLC leaves an empty tlc-* directory per run in java.io.tmpdir
    os.makedirs(jtmp, exist_ok=True)
    cmd = ["java", "-XX:+UseParallelGC", "-Xmx" + heap, "-Xss64m", "-Djava.io.tmpdir=" + jtmp,
           "-DTLA-Library=" + SPEC, "-cp", JAR, "tlc2.TLC",
           "-workers", str(workers), "-metadir", os.path.join(wd, "meta"), "-noGenerateSpecTE",
           "-config", cfg_path]
    res = TlcResult()
    if dump:
        res.dump = os.path.join(wd, "states")
        cmd += ["-dump", res.dump]
        res.dump += ".dump"
    if coverage:
        cmd += ["-coverage", "1"]
    if simulate:
        cmd += ["-simulate", simulate]
    if depth:
        cmd += ["-depth", str(depth)]
    if seed is not None:
        cmd += ["-seed", str(seed)]
    if extra:
        cmd += list(extra)
    cmd.append(os.path.join(SPEC, module + ".tla"))
    e = dict(os.environ)
    e.pop("JAVA_TOOL_OPTIONS", None)
    if env:
        e.update(env)
    t0 = time.time()
    try:
        p = subprocess.run(cmd, cwd=SPEC, env=e, stdout=subprocess.PIPE, stderr=subprocess.STDOUT,
                           timeout=timeout, text=True)
    except subprocess.TimeoutExpired as ex:
        subprocess.run(["pkill", "-f", "tlc2[.]TLC.*" + re.escape(wd)], check=False)
        raise TlcError("TLC timed out after %ss on %s" % (timeout, module)) from ex
    shutil.rmtree(jtmp, ignore_errors=True)
    res.wall = time.time() - t0
    res.rc = p.returncode
    res.out = p.stdout
    with open(os.path.join(wd, "tlc.out"), "w") as f:
        f.write(p.stdout)
    m = None
    for m in _RE_STATES.finditer(p.stdout):
        pass
    if m:
        res.generated, res.distinct, res.queue = int(m.group(1)), int(m.group(2)), int(m.group(3))
    m = _RE_DEPTH.search(p.stdout)
    if m:
        res.depth = int(m.group(1))
    m = _RE_INV.search(p.stdout)
    if m:
        res.violated = m.group(1)
    m = _RE_ACTPROP.search(p.stdout)
    if m and not res.violated:
        res.violated = m.group(1)
    if coverage:
        for m in _RE_COV.finditer(p.stdout):
            res.coverage[m.group(1)] = res.coverage.get(m.group(1), 0) + int(m.group(8))
    if res.violated is None:
        bad = [ln for ln in p.stdout.splitlines()
               if ln.startswith("Error:") or "TLC threw" in ln or "Parsing or semantic analysis failed" in ln
               or ln.startswith("***Parse Error***") or "java.lang." in ln]
        finished = "Model checking completed" in p.stdout or "Finished in" in p.stdout or simulate
        if bad or not finished or p.returncode not in (0,):
            # a postcondition failure is reported separately by callers via the text
            res.error = "\n".join(bad[:5]) or "TLC exit %s" % p.returncode
    return res


def require_ok(res, what):
    if res.error:
        tail = "\n".join(res.out.splitlines()[-40:])
        raise TlcError("%s: TLC failed: %s\n%s" % (what, res.error, tail))
    return res


def dev_constants():
    """DEV_ switches of spec/D42Known.tla as cfg constants, from known_findings.json"""
    import json
    with open(os.path.join(VERIF, "known_findings.json")) as f:
        kf = json.load(f)
    return {k: ("TRUE" if v else "FALSE") for k, v in kf["dev_flags"].items()}
