"""Shared machinery of the checks: running the model, validating recorded events with TLC,
classifying failures against known_findings.json, writing evidence and replay files."""
import json
import os
import random
import re
import sys
import time

from . import tlc, tlaval

VERIF = tlc.VERIF
# seeded-change evaluation redirects both so that the committed evidence is not overwritten
EVIDENCE = os.environ.get("VERIF_EVIDENCE_DIR") or os.path.join(VERIF, "evidence")
REPLAYS = os.environ.get("VERIF_REPLAY_DIR") or os.path.join(VERIF, "replays")

EXIT_OK, EXIT_VIOLATION, EXIT_MACHINERY = 0, 1, 2


class MachineryFailure(Exception):
    pass


def setup_repo_path():
    """import d42 from $D42_REPO (default /repo): always the current working tree"""
    repo = os.environ.get("D42_REPO", "/repo")
    sys.dont_write_bytecode = True
    if repo not in sys.path:
        sys.path.insert(0, repo)
    import d42  # noqa
    here = os.path.realpath(os.path.dirname(d42.__file__))
    want = os.path.realpath(os.path.join(repo, "d42"))
    if here != want:
        raise MachineryFailure("d42 imported from %s, expected %s" % (here, want))
    # make sure every visitor override is installed
    import d42.generation, d42.validation, d42.substitution, d42.representation  # noqa
    # schemas are built through every public construction route in turn (harness/absmap.py)
    from . import absmap
    absmap.enable_routes(os.environ.get("VERIF_ROUTES", "1") != "0")
    return repo


def known_findings():
    with open(os.path.join(VERIF, "known_findings.json")) as f:
        return json.load(f)


class Check:
    def __init__(self, pid, tier, seed):
        self.pid = pid
        self.tier = tier
        self.seed = seed
        self.t0 = time.time()
        self.rng = random.Random(seed)
        self.states = 0
        self.transitions = 0
        self.mc_runs = []
        self.events_ok = 0
        self.events_total = 0
        self.skipped = {}
        self.drift = 0
        self.drift_samples = []
        self.failures = []       # (clause, sig, case)
        self.known_seen = {}
        self.samples = []
        self.constants = {}
        self.counts = {}
        self.notes = []
        self.exhaustive = True
        self.assumptions = []
        kf = known_findings()
        self.open_sigs = {f["sig"]: f for f in kf["findings"]
                          if f["property"] == pid and f["status"] == "open"}

    # ---------------------------------------------------------------- model checking
    def model_check(self, module, cfg, name=None, expect_violation=None, **kw):
        cfg = dict(cfg)
        consts = dict(tlc.dev_constants())
        consts.update(cfg.get("constants", {}))
        cfg["constants"] = consts
        res = tlc.run(module, cfg, name or ("%s_%s" % (self.pid, module)), **kw)
        if res.error:
            raise MachineryFailure("TLC failed on %s: %s\n%s" % (module, res.error,
                                                               "\n".join(res.out.splitlines()[-30:])))
        self.states += res.distinct
        self.transitions += res.generated
        self.mc_runs.append({"module": module, "constants": {k: v for k, v in consts.items()
                                                           if not k.startswith("DEV_")},
                             "invariants": cfg.get("invariants", []) + cfg.get("properties", []),
                             **res.summary(), "violated": res.violated})
        if res.violated and not expect_violation:
            # a counterexample on the operational model: the design itself breaks the
            # property (or the model is wrong) -- report with the TLC trace as replay
            path = self.write_replay({"kind": "model_counterexample", "module": module,
                                      "invariant": res.violated,
                                      "tlc_output_tail": res.out.splitlines()[-80:]})
            self.failures.append(("model:" + res.violated, None, {"replay": path}))
        return res

    # ---------------------------------------------------------------- trace validation
    def validate_events(self, module, events, name=None, extra_constants=None):
        """events: list of JSON-able dicts with an integer 'id'.  Returns {id: (verdict, drift)}.
        The trace spec prints one <<"V", id, verdict, drift>> line per event."""
        if not events:
            return {}
        name = name or ("%s_%s" % (self.pid, module))
        consts = dict(tlc.dev_constants())
        if extra_constants:
            consts.update(extra_constants)
        cfg = {"init": "TraceInit", "next": "TraceNext", "constants": consts,
               "postcondition": "TraceAccepted"}
        # one TLC run per chunk of the recording (a JSON file of several hundred MB does not
        # deserialize in the heap); chunks are independent and run side by side
        chunks, cur, size = [], [], 0
        for e in events:
            text = json.dumps(e, separators=(",", ":"))
            if cur and (size + len(text) > 48_000_000 or len(cur) >= 60000):
                chunks.append(cur)
                cur, size = [], 0
            cur.append(text)
            size += len(text)
        chunks.append(cur)

        def one(k):
            cname = name if len(chunks) == 1 else "%s_part%d" % (name, k)
            wd = tlc.workdir(cname + "_ev")
            path = os.path.join(wd, "events.json")
            with open(path, "w") as f:
                f.write("[" + ",".join(chunks[k]) + "]")
            return tlc.run(module, cfg, cname, workers=1, env={"TRACE_FILE": path}, heap="8g")

        if len(chunks) == 1:
            results = [one(0)]
        else:
            from concurrent.futures import ThreadPoolExecutor
            with ThreadPoolExecutor(max_workers=4) as pool:
                results = list(pool.map(one, range(len(chunks))))
        verdicts = {}
        for res in results:
            got = 0
            for m in re.finditer(r'<<\s*"V",\s*(-?\d+),\s*"([^"]*)",\s*(TRUE|FALSE)\s*>>', res.out):
                verdicts[int(m.group(1))] = (m.group(2), m.group(3) == "TRUE")
                got += 1
            if res.error and "TraceAccepted" not in res.out and not got:
                raise MachineryFailure("trace validation %s: TLC failed: %s\n%s" % (
                    module, res.error, "\n".join(res.out.splitlines()[-30:])))
        missing = [e["id"] for e in events if e["id"] not in verdicts]
        if missing:
            raise MachineryFailure("trace validation %s: no verdict for event %s\n%s" % (
                module, missing[:1], "\n".join(results[-1].out.splitlines()[-30:])))
        if len(verdicts) != len(events):
            raise MachineryFailure("trace validation %s: %d verdicts for %d events" % (
                module, len(verdicts), len(events)))
        summ = {"states": sum(r.distinct for r in results), "transitions": sum(r.generated for r in results),
                "depth": max(r.depth for r in results), "wall_s": round(sum(r.wall for r in results), 2)}
        self.mc_runs.append({"module": module, "events": len(events), "chunks": len(chunks), **summ})
        return verdicts

    def absorb(self, events, verdicts, describe):
        """tally verdicts; describe(event) -> JSON-able replay case"""
        for e in events:
            verdict, drift = verdicts[e["id"]]
            self.events_total += 1
            if drift:
                self.drift += 1
                if len(self.drift_samples) < 5:
                    self.drift_samples.append(describe(e))
            if verdict == "OK":
                self.events_ok += 1
            elif verdict.startswith("SKIP:"):
                self.skipped[verdict[5:]] = self.skipped.get(verdict[5:], 0) + 1
            elif verdict.startswith("FAIL:"):
                parts = verdict.split(":")
                clause = parts[1]
                sig = parts[2] if len(parts) > 2 and parts[2] else None
                self.fail(clause, sig, describe(e))
            else:
                raise MachineryFailure("unknown verdict %r" % (verdict,))

    def fail(self, clause, sig, case):
        if sig and sig in self.open_sigs:
            k = self.known_seen.setdefault(sig, {"count": 0, "example": case, "clause": clause})
            k["count"] += 1
        else:
            self.failures.append((clause, sig, case))

    def count(self, key, n=1):
        self.counts[key] = self.counts.get(key, 0) + n

    def sample(self, case, limit=6):
        if len(self.samples) < limit:
            self.samples.append(case)

    def require(self, cond, what):
        if not cond:
            if any(str(f[0]).startswith("model:") for f in self.failures):
                return      # TLC stopped at a counterexample: that, not the thin run, is what to report
            raise MachineryFailure("non-vacuity / sanity requirement failed: " + what)

    # ---------------------------------------------------------------- results
    def write_replay(self, case):
        os.makedirs(REPLAYS, exist_ok=True)
        if not getattr(self, "_replays_cleared", False):
            # the replay files of an earlier run of the same check are stale
            import glob
            for old in glob.glob(os.path.join(REPLAYS, "%s_%s_*.json" % (self.pid, self.tier))):
                os.remove(old)
            self._replays_cleared = True
        n = 0
        while True:
            path = os.path.join(REPLAYS, "%s_%s_%d.json" % (self.pid, self.tier, n))
            if not os.path.exists(path):
                break
            n += 1
        with open(path, "w") as f:
            json.dump({"property": self.pid, "seed": self.seed, "tier": self.tier, "case": case},
                      f, indent=1, default=str)
        return path

    def judge_entry_points(self):
        """acceptance observations made through harness/common.py accepts(): the entry points to
        validation must have agreed (spec/Trace_Entry.tla)"""
        from . import common
        if not common.ENTRY_OBS:
            return
        events = []
        for (no_errors, has_errors, eq, ne, vof), slot in sorted(common.ENTRY_OBS.items(), key=repr):
            events.append({"id": len(events) + 1, "no_errors": no_errors, "has_errors": has_errors, "eq": eq,
                           "ne": ne, "vof": vof, "count": slot["count"], "example": slot["example"]})
        slim = [{k: e[k] for k in ("id", "no_errors", "has_errors", "eq", "ne", "vof")} for e in events]
        verdicts = self.validate_events("Trace_Entry", slim, name="%s_Trace_Entry" % self.pid)
        self.counts["acceptance_observations"] = sum(e["count"] for e in events)
        for e in events:
            v = verdicts[e["id"]][0]
            if v.startswith("FAIL"):
                self.fail(v.split(":")[1], None, {"entry_points": e})
        common.ENTRY_OBS.clear()

    def finish(self, level="model_checking", rule=None, extra=None):
        os.makedirs(EVIDENCE, exist_ok=True)
        self.judge_entry_points()
        for sig, k in sorted(self.known_seen.items()):
            f = self.open_sigs[sig]
            print("KNOWN-FINDING: property=%s %s: %s (%d case(s) this run, e.g. %s)" % (
                self.pid, sig, f["what"], k["count"], json.dumps(k["example"], default=str)[:300]))
        seen = {}
        for clause, sig, case in self.failures:
            key = (clause, sig)
            seen[key] = seen.get(key, 0) + 1
            if seen[key] > 3:      # at most three replay files per failing clause
                continue
            path = case.get("replay") if isinstance(case, dict) and "replay" in case and len(case) == 1 \
                else self.write_replay({"clause": clause, "sig": sig, "case": case})
            print("VIOLATION property=%s replay=%s clause=%s%s" % (
                self.pid, path, clause, (" sig=" + sig) if sig else ""))
        cov = {
            "states": self.states,
            "transitions": self.transitions,
            "traces_validated_against_impl": self.events_ok,
            "samples": self.samples or [{"note": "no sample recorded"}],
            "events_recorded": self.events_total,
            "skipped": self.skipped,
            "drift_vs_operational_model": self.drift,
            "drift_samples": self.drift_samples,
            "tlc_runs": self.mc_runs,
            "counts": self.counts,
            "known_findings_seen": {s: k["count"] for s, k in self.known_seen.items()},
            "exhaustive": bool(self.exhaustive),
        }
        if rule:
            cov["rule"] = rule
        if extra:
            cov.update(extra)
        ev = {"property_id": self.pid, "tier": self.tier, "seed": self.seed, "level": level,
              "coverage": cov, "assumptions": self.assumptions, "wall_s": round(time.time() - self.t0, 2),
              "violations": len(self.failures)}
        with open(os.path.join(EVIDENCE, self.pid + ".json"), "w") as f:
            json.dump(ev, f, indent=1, default=str)
        if self.drift:
            print("NOTE property=%s drift against the operational model in %d event(s) "
                  "(not a violation)" % (self.pid, self.drift))
        print("%s %s tier=%s states=%d transitions=%d events=%d ok=%d skipped=%d drift=%d "
              "known=%d violations=%d wall=%.1fs" % (
                  "FAIL" if self.failures else "PASS", self.pid, self.tier, self.states,
                  self.transitions, self.events_total, self.events_ok, sum(self.skipped.values()),
                  self.drift, sum(k["count"] for k in self.known_seen.values()),
                  len(self.failures), time.time() - self.t0))
        return EXIT_VIOLATION if self.failures else EXIT_OK


def load_dump(res, only=None):
    if not res.dump or not os.path.exists(res.dump):
        raise MachineryFailure("TLC wrote no state dump")
    return tlaval.parse_dump_fast(res.dump, only=only)
