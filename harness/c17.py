"""C17  Seeded generation is reproducible.

(A) spec/MC_Seed.tla states non-interference: the outputs of a seeded run are a function of
the seed and the schemas, not of the interpreter configuration; it lists the draw sites that
read the environment (candidates enumerated from a hash-ordered set) and picks schema
sequences that exercise every draw site.
(B) every (seed, sequence) is run through the module-level fake() after Random().set_seed(k),
twice per process, in several fresh interpreters with different PYTHONHASHSEED values; values
and the draws made (wrapped Random methods) are recorded.
(C) spec/Trace_C17.tla decides: equal within a process, equal across configurations, every
draw within its primitive's contract.
"""
import json
import os
import subprocess
import sys

from . import core, tlc


def describe(e):
    return {"seed": e["seed"], "schemas": e.get("reprs"), "per_configuration": [
        {"PYTHONHASHSEED": r["hashseed"], "values": r["first"], "second_run_equal": r["first"] == r["second"],
         "draws_ok": r["draws_ok"]} for r in e["runs"]]}


def _uses_clock(x):
    """an unfixed uuid4 / datetime / date anywhere inside (they draw from the OS and the clock)"""
    if isinstance(x, dict):
        if x.get("t") in ("uuid4", "datetime", "date") and x.get("value") == []:
            return True
        return any(_uses_clock(v) for v in x.values())
    if isinstance(x, list):
        return any(_uses_clock(v) for v in x)
    return False


def main(chk):
    repo = core.setup_repo_path()
    quick = chk.tier == "quick"
    hashseeds = ["0", "1", "2", "12345"] if quick else ["0", "1", "2", "3", "12345", "999983", "4242", "77"]
    seeds = "{0, 1}" if quick else "{0, 1, 2, 7}"
    cfg = {"constants": {"Configs": "{1, 2, 3}", "Seeds": seeds, "MaxSeq": "2"},
           "invariants": ["C17_ConfigurationDoesNotMatter", "C17_Repeatable"]}
    res = chk.model_check("MC_Seed", cfg, dump=True)
    jobs = []
    from . import absmap as am
    for st in core.load_dump(res):
        if st["out"]:
            continue
        jobs.append({"id": len(jobs) + 1, "seed": st["seed"], "seq": st["seq"]})
    # the real seeds are arbitrary integers: spread them
    # ... and need not be integers: random.seed takes str, bytes and float seeds as well
    for j in jobs:
        j["seed"] = j["seed"] * 7919 + 17
        j["seed_kind"] = ["int", "str", "bytes", "float", "int"][j["id"] % 5]
    chk.require(len(jobs) >= 100, "too few sequences (%d)" % len(jobs))
    # sequences of one to four random declarations nested three levels (custom types, aliases, regex
    # programs, unions inside lists inside dicts): many draw sites in one run, and what one schema
    # leaves behind in the shared generator meets the next
    from . import deep
    ndeep = 1500 if quick else 15000
    made = 0
    for i in range(ndeep * 6):
        if made >= ndeep:
            break
        seq = []
        for _ in range(1 + i % 4):
            b = deep.build(chk.rng, 3)
            if b is not None and not _uses_clock(b[0]):
                seq.append(b[0])
        if not seq:
            continue
        jobs.append({"id": len(jobs) + 1, "seed": chk.rng.randrange(10 ** 6), "seq": seq,
                     "seed_kind": ["int", "str", "bytes", "float"][i % 4]})
        made += 1
        chk.count("deep_random_sequences")
    wd = tlc.workdir("C17_jobs")
    job_path = os.path.join(wd, "jobs.json")
    json.dump(jobs, open(job_path, "w"))
    outs = []
    # what a process executed before a job must not matter either: every other interpreter
    # works through the job list in reverse order
    for n, hs in enumerate(hashseeds):
        out_path = os.path.join(wd, "out_%s.json" % hs)
        env = dict(os.environ, PYTHONHASHSEED=hs, PYTHONDONTWRITEBYTECODE="1", D42_REPO=repo,
                   VERIF_JOB_ORDER="reverse" if n % 2 else "forward")
        p = subprocess.run([sys.executable, os.path.join(os.path.dirname(__file__), "seedworker.py"),
                            job_path, out_path], env=env, stdout=subprocess.PIPE, stderr=subprocess.STDOUT,
                           text=True, timeout=1800)
        if p.returncode != 0 or not os.path.exists(out_path):
            raise core.MachineryFailure("seed worker failed under PYTHONHASHSEED=%s:\n%s" % (hs, p.stdout[-2000:]))
        o = json.load(open(out_path))
        o["by_id"] = {r["id"]: r for r in o["results"]}
        outs.append(o)
    events = []
    for j in jobs:
        runs = []
        for o in outs:
            r = o["by_id"][j["id"]]
            runs.append({"hashseed": o["hashseed"], "first": r["first"], "second": r["second"],
                         "draws_ok": r["draws_ok"]})
            chk.count("draws_recorded", r["ndraws"])
        reprs = [("%s(%r, ...)" % (s["x"], am.g_schema(s["a"])))[:160] if "x" in s
                 else repr(am.g_schema(s))[:120] for s in j["seq"]]
        events.append({"id": j["id"], "seed": j["seed"], "seq": j["seq"], "runs": runs, "reprs": reprs})
        chk.count("sequences")
    chk.require(chk.counts.get("draws_recorded", 0) >= 2000, "too few draws observed")
    slim = [{k: e[k] for k in ("id", "seed", "seq", "runs")} for e in events]
    verdicts = chk.validate_events("Trace_C17", slim)
    chk.absorb(events, verdicts, describe)
    for e in events[:: max(1, len(events) // 4)][:4]:
        chk.sample(describe(e))
    chk.assumptions = ["interpreter configurations: fresh processes with PYTHONHASHSEED in %s" % hashseeds,
                       "schemas of spec/D42Seed.tla SeedSchemas (every draw site of the generator and the regex "
                       "generator), sequences of one or two; unfixed uuid4/datetime/date excluded as the property says"]
    return chk.finish(rule="(seed, schema sequence) pairs, each run twice in each of %d interpreter processes; "
                           "non-trivial = a pair whose values and draws were recorded in every configuration"
                           % len(hashseeds),
                      extra={"constants": {"hashseeds": hashseeds, "seeds": seeds}})
