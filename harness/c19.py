"""C19  v1-to-v2 migration rewrites imports and nothing else.

(A) spec/MC_Migrate.tla assembles modules row by row from a menu of import forms (one line,
parenthesised, backslash; aliases, star, relative, mixed mapped/unmapped names, unmapped
modules) and other statements (alone or sharing a line with `;`), and checks the line-splice
model against the statement-level rewrite of spec/D42Migrate.tla.
(B) every assembled module is rendered to Python source (with and without a final newline)
and given to the real rewrite_imports with the real mapping; input and output are abstracted
with ast.  Every mapping target is imported.
(C) spec/Trace_C19.tla decides: nothing-to-do only without mapped imports, output parses,
other statements preserved in order, bindings equal to the migrated ones.
"""
import ast
import importlib

from . import core

OTHERS = {
    1: "x = 1",
    2: "y = (1,\n     2)",
    3: "import district42",
    4: "z = \"from district42 import schema\"",
    5: "def f():\n    from district42 import schema\n    return schema",
    6: "try:\n    from district42 import schema as _s\nexcept ImportError:\n    _s = None",
    7: "\"\"\"from district42 import schema\"\"\"",
    8: "# from district42 import schema",
    9: "\u0438\u043c\u044f = \"Ren\u00e9 \u2014 caf\u00e9\"",
}
U_ALIAS = "\u0441\u0445\u0435\u043c\u0430"


def render_stmt(st):
    if st["k"] == "oth":
        return OTHERS[st["id"]]
    names = [n["n"] + (" as " + (U_ALIAS if n["as"] == "u_alias" else n["as"]) if n["as"] else "") for n in st["names"]]
    head = "from %s%s import " % ("." * st["level"], st["mod"] if not (st["level"] and st["mod"] == "") else "")
    form = st["form"]
    if form == "paren":
        return head + "(\n" + "".join("    %s,\n" % n for n in names) + ")"
    if form == "bslash":
        return head + names[0] + ", \\\n    " + ", ".join(names[1:])
    return head + ", ".join(names)


def render(rows, newline):
    lines = []
    for row in rows:
        lines.append("; ".join(render_stmt(st) for st in row))
    text = "\n".join(lines)
    return text + ("\n" if newline else "")


_DUMPS = None


def other_id(node):
    global _DUMPS
    if _DUMPS is None:
        _DUMPS = {}
        for i, src in OTHERS.items():
            body = ast.parse(src).body
            if body:
                _DUMPS[ast.dump(body[0])] = i
    return _DUMPS.get(ast.dump(node), 1000 + (hash(ast.dump(node)) % 1000))


def abstract(source, mapping):
    out = []
    for node in ast.parse(source).body:
        if isinstance(node, ast.ImportFrom):
            mod = node.module or ""
            names = []
            for a in node.names:
                to = []
                if node.level == 0 and mod in mapping and a.name in mapping[mod]:
                    to = [list(mapping[mod][a.name])]
                names.append({"n": a.name, "as": "u_alias" if a.asname == U_ALIAS else (a.asname or ""), "to": to})
            out.append({"k": "imp", "level": node.level, "mod": mod, "names": names})
        else:
            out.append({"k": "oth", "id": other_id(node)})
    return out


PLACE_DIRS = {"root": "", "sub": "pkg", "sub/deep": "pkg/inner", "hidden": ".hidden", "pycache": "__pycache__",
              "hidden/sub": ".hidden/pkg", "sub/pycache": "pkg/__pycache__"}
V1_SOURCE = "import os\nfrom district42 import schema, optional as o\n\nx = schema.int\n"
PLAIN_SOURCE = "import os\nfrom os import path\n\nx = 1\n"
ACCENTED = 'import os\nfrom district42 import schema\n\nAUTHOR = "Ren\u00e9"  # caf\u00e9\nx = schema.int\n'
FILE_BYTES = {"v1import": V1_SOURCE.encode("utf-8"), "plain": PLAIN_SOURCE.encode("utf-8"),
              "v1import_utf8": ACCENTED.encode("utf-8"),
              "v1import_latin1": ("# -*- coding: latin-1 -*-\n" + ACCENTED).encode("latin-1")}


def walk_cases(chk, mapping):
    """spec/MC_Walk.tla: file trees; the real migrate_v1_to_v2 (through the d42 command line
    entry point for half of them) is run on a scratch directory under /verif/.work"""
    import io
    import os
    import shutil
    import sys
    from contextlib import redirect_stdout
    from d42.migration.migrate_v1_to_v2 import migrate_v1_to_v2, rewrite_imports
    from . import tlc
    res = chk.model_check("MC_Walk", {"constants": {"MaxFiles": "2" if chk.tier == "quick" else "3"},
                                      "invariants": ["OnlyEligibleFilesChange"]}, name="C19_MC_Walk", dump=True)
    events = []
    base = tlc.workdir("C19_walk_fs")
    n = 0
    for st in core.load_dump(res, only="done = TRUE"):
        if not st["done"]:
            continue
        n += 1
        root = os.path.join(base, "t%d" % n)
        files = []
        for i, f in enumerate(st["tree"]):
            d = os.path.join(root, PLACE_DIRS[f["place"]])
            os.makedirs(d, exist_ok=True)
            name = "m%d.%s" % (i, "py" if f["kind"] == "py" else "txt")
            data = FILE_BYTES[f["content"]]
            with open(os.path.join(d, name), "wb") as fh:
                fh.write(data)
            files.append((f, os.path.join(d, name), data))
        os.makedirs(root, exist_ok=True)
        exc = ""
        try:
            with redirect_stdout(io.StringIO()):
                if n % 2:
                    migrate_v1_to_v2(root)
                else:
                    from d42 import _main
                    old_argv = sys.argv
                    sys.argv = ["d42", "v1-to-v2", root]
                    try:
                        _main.run()
                    finally:
                        sys.argv = old_argv
        except BaseException as e:  # noqa
            exc = type(e).__name__
        recs = []
        for f, path, data in files:
            now = open(path, "rb").read()
            try:
                want = rewrite_imports(data.decode("utf-8"), mapping)
                want = data if want is None else want.encode("utf-8")
            except UnicodeDecodeError:
                want = data
            recs.append({"place": f["place"], "kind": f["kind"], "content": f["content"], "n": f["n"],
                         "changed": now != data, "rewrite_ok": now == want})
        events.append({"id": n, "exc": exc, "files": recs})
        shutil.rmtree(root, ignore_errors=True)
    chk.require(n >= 100, "too few file trees (%d)" % n)
    verdicts = chk.validate_events("Trace_Walk", events, name="C19_Trace_Walk")
    chk.absorb(events, verdicts, lambda e: {"walk": e})
    chk.count("file_trees", n)
    chk.sample({"file_tree": events[len(events) // 2]})


def describe(e):
    if e["kind"] == "target":
        return {"mapping_target": [e["mod"], e["name"]], "importable": e["importable"]}
    return {"source": e.get("source"), "returned_none": e["nothing"], "output": e.get("output"),
            "parses": e["parses"], "input_statements": e["inp"], "output_statements": e["out"]}


def main(chk):
    core.setup_repo_path()
    from d42.migration.migrate_v1_to_v2 import mapping, rewrite_imports
    quick = chk.tier == "quick"
    runs = [("single", "3", 1.0), ("all", "2", 0.25)] if quick else [("single", "4", 0.5), ("all", "2", 1.0)]
    states = []
    for menu, maxrows, keep in runs:
        cfg = {"constants": {"MaxRows": maxrows, "Rich": "FALSE", "Menu": '"%s"' % menu},
               "invariants": ["C19_RowsRewrittenAsStatements"]}
        res = chk.model_check("MC_Migrate", cfg, name="C19_MC_Migrate_%s_%s" % (menu, maxrows), dump=True,
                              timeout=3000)
        for st in core.load_dump(res):
            if st["rows"] and (keep >= 1.0 or chk.rng.random() <= keep):
                states.append(st)
    events = []
    blank = {"kind": "module", "mod": "", "name": "", "importable": True, "nothing": False, "parses": True,
             "inp": [], "out": [], "shared": False}
    for st in states:
        rows = st["rows"]
        source = render(rows, bool(st["newline"]))
        try:
            inp = abstract(source, mapping)
        except SyntaxError:
            raise core.MachineryFailure("rendered module is not valid Python:\n" + source)
        ev = dict(blank)
        ev["shared"] = any(len(r) > 1 and any(s["k"] == "imp" and s["level"] == 0 for s in r) for r in rows)
        ev["inp"] = inp
        ev["source"] = source
        try:
            output = rewrite_imports(source, mapping)
        except BaseException as e:  # noqa
            output = None
            ev["parses"] = False
            ev["output"] = "raised " + type(e).__name__
            ev["id"] = len(events) + 1
            events.append(ev)
            continue
        if output is None:
            ev["nothing"] = True
            ev["out"] = inp
        else:
            ev["output"] = output
            try:
                ev["out"] = abstract(output, mapping)
                # names mapped in the *output* are targets, not sources: clear the annotation
                for s in ev["out"]:
                    if s["k"] == "imp":
                        for n in s["names"]:
                            n["to"] = []
            except SyntaxError:
                ev["parses"] = False
        ev["id"] = len(events) + 1
        events.append(ev)
        chk.count("modules")
        chk.count("shared_rows" if ev["shared"] else "separate_rows")
    for mod, names in mapping.items():
        for name, (new_mod, new_name) in names.items():
            ok = False
            try:
                ok = hasattr(importlib.import_module(new_mod), new_name)
            except Exception:
                ok = False
            ev = dict(blank, kind="target", mod=new_mod, name=new_name, importable=ok)
            ev["id"] = len(events) + 1
            events.append(ev)
            chk.count("mapping_targets")
    chk.require(chk.counts.get("modules", 0) >= 5000, "fewer than 5000 modules (%d)" % chk.counts.get("modules", 0))
    chk.require(chk.counts.get("mapping_targets", 0) >= 90, "mapping table smaller than expected")
    slim = [{k: e[k] for k in ("id", "kind", "mod", "name", "importable", "nothing", "parses", "inp", "out",
                               "shared")} for e in events]
    verdicts = chk.validate_events("Trace_C19", slim)
    chk.absorb(events, verdicts, describe)
    walk_cases(chk, mapping)
    mods = [e for e in events if e["kind"] == "module"]
    for e in mods[:: max(1, len(mods) // 4)][:4]:
        chk.sample(describe(e))
    chk.exhaustive = False
    chk.assumptions = ["module layouts of spec/MC_Migrate.tla: all modules of <= 3 single-statement rows; modules of "
                       "<= 2 rows that may share a line (sampled), with and without a final newline",
                       "comments are not statements: the property does not require them to survive"]
    return chk.finish(rule="assembled modules plus every entry of the mapping table; non-trivial = a module given to "
                           "the real rewrite_imports, or a mapping target imported",
                      extra={"constants": {"runs": runs}})
