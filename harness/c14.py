"""C14  from_native(value) denotes exactly that value.

(A) spec/MC_Native.tla: every plain value of spec/D42ValueUniverse.tla (nesting <= Depth) and
every injection of one non-plain member at any position; invariants: the converted schema
accepts the value, generates exactly it, rejects every one-step edit that is a different
value; other kinds are refused with ValueError.
(B) each value is replayed on the real from_native / validate / fake.
(C) spec/Trace_Native.tla decides the recorded observations.
"""
from . import absmap as am
from .common import safe_repr
from . import core, mutants, valgen
from .common import try_abs

CONST_TAPES = [["lo"], ["lo1"], ["hi1"], ["hi"]]


def describe(e):
    return {"value": e["v"], "value_repr": e.get("vrepr"), "exc": e["exc"], "result": e["r"],
            "result_repr": e.get("rrepr"), "accepts_own_value": e["acc"], "gens": e["gens"],
            "accepted_probes": [p["w"] for p in e["probes"] if p["ok"]][:5]}


def observe(v_abs, v_real, nprobes, rng):
    import d42
    from d42.utils import from_native
    ev = {"v": v_abs, "exc": "", "rep": False, "r": [], "acc": False, "gens": [], "probes": [],
          "vrepr": safe_repr(v_real)[:200]}
    try:
        result = from_native(v_real)
    except BaseException as e:  # noqa
        ev["exc"] = type(e).__name__
        return ev
    ev["rep"], ev["r"] = try_abs(am.a_schema, result)
    ev["rrepr"] = safe_repr(result)[:300]
    from .common import accepts
    ev["acc"] = accepts(result, v_real)
    for tape in CONST_TAPES:
        exc, w = valgen.real_fake(result, tape)
        g = {"exc": exc, "rep": False, "w": []}
        if not exc:
            g["rep"], g["w"] = try_abs(am.a_value, w)
        ev["gens"].append(g)
    probes = mutants.dedup(mutants.mutants(v_abs, mutants.UNRELATED, mutants.EXTRA_KEYS))
    if nprobes is not None and len(probes) > nprobes:
        probes = rng.sample(probes, nprobes)
    for w in probes:
        try:
            w_real = am.g_value(w)
            w_abs = am.a_value(w_real)
        except am.Unrepresentable:
            continue
        ok = accepts(result, w_real)
        ev["probes"].append({"w": w_abs, "ok": ok})
    return ev


def main(chk):
    core.setup_repo_path()
    quick = chk.tier == "quick"
    depth = 3
    nprobes = 40 if quick else None
    cfg = {"constants": {"Depth": str(depth)},
           "invariants": ["C14_AcceptsItsValue", "C14_GeneratesExactlyIt", "C14_RejectsEverythingElse",
                          "C14_RefusesOtherKinds", "C14_SubstitutionAgrees"]}
    res = chk.model_check("MC_Native", cfg, dump=True)
    events = []
    seen = set()
    for st in core.load_dump(res):
        v = st["v"]
        try:
            v_real = am.g_value(v)
            v_abs = am.a_value(v_real)
        except am.Unrepresentable:
            chk.count("value_not_concretisable")
            continue
        k = valgen.key(v_abs)
        if k in seen:
            continue
        seen.add(k)
        ev = observe(v_abs, v_real, nprobes, chk.rng)
        ev["id"] = len(events) + 1
        events.append(ev)
        chk.count("plain" if st["plain"] else "non_plain")
    # random plain values nested up to 4 containers deep, and the same with one member of another kind
    # put at a random position (element, dict value, dict key): what the small universe cannot hold
    from . import deep
    foreign_any = [am.VObj(c, [], []) for c in ("tuple0", "tuple12", "set1", "frozenset1", "bytearray_ab", "Decimal1",
                                                "Fraction12", "complex1", "range3", "object_a", "type_int")] + \
                  [{"k": "uuid", "ver": 1, "id": 0}, {"k": "ellipsis"}]
    unhashable = ("set1", "bytearray_ab")
    nrand = 1500 if quick else 20000
    for i in range(nrand):
        v = deep.rand_plain_value(chk.rng, 2 + i % 3)
        kind = "deep_plain"
        if i % 3 == 2:
            member = chk.rng.choice(foreign_any)
            v = deep.inject(chk.rng, v, member, as_key_ok=member.get("cls") not in unhashable)
            kind = "deep_non_plain"
        try:
            v_real = am.g_value(v)
            v_abs = am.a_value(v_real)
        except (am.Unrepresentable, TypeError):
            chk.count("value_not_concretisable")
            continue
        k = valgen.key(v_abs)
        if k in seen:
            continue
        seen.add(k)
        ev = observe(v_abs, v_real, 25 if quick else 60, chk.rng)
        ev["id"] = len(events) + 1
        events.append(ev)
        chk.count(kind)
    chk.require(chk.counts.get("plain", 0) >= 300 and chk.counts.get("non_plain", 0) >= 300,
                "value mix too thin: %r" % chk.counts)
    slim = [{k: e[k] for k in ("id", "v", "exc", "rep", "r", "acc", "gens", "probes")} for e in events]
    verdicts = chk.validate_events("Trace_Native", slim)
    chk.absorb(events, verdicts, describe)
    for e in events[:: max(1, len(events) // 5)][:5]:
        chk.sample(describe(e))
    chk.exhaustive = nprobes is None
    chk.assumptions = ["value universe of spec/D42ValueUniverse.tla (nesting <= %d); NaN is outside the ordered "
                       "number domain (DESIGN 10)" % depth,
                       "subclasses of built-in types count as the built-in (from_native uses isinstance)"]
    return chk.finish(rule="plain values of the universe plus every single non-plain injection; non-trivial = a "
                           "distinct value passed to the real from_native",
                      extra={"constants": {"Depth": depth, "probes": nprobes or "all"}})
