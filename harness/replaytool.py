"""./check <id> --replay <file>: show a recorded failing case and run it again on the real code of
/repo's working tree (as far as the case can be rebuilt from the file), printing what happens now.
Exit 0 when the case was shown; the verdict on it is the check's, not this tool's."""
import json

from . import core


def _unwrap(d):
    c = d.get("case", d)
    while isinstance(c, dict) and "case" in c and isinstance(c["case"], dict):
        c = c["case"]
    return c


def replay(pid, path):
    core.setup_repo_path()
    import d42
    from . import absmap as am, valgen
    am.enable_routes(False)
    d = json.load(open(path))
    outer = d.get("case", {})
    print("property=%s clause=%s sig=%s" % (d.get("property", pid), outer.get("clause") or outer.get("kind"), outer.get("sig")))
    c = _unwrap(d)
    if outer.get("kind") == "model_counterexample":
        print("counterexample of the operational model (TLC output):")
        print("\n".join(outer.get("tlc_output_tail", [])[-60:]))
        return 0
    real = None
    schema_abs = c.get("schema") or c.get("wrapped_schema")
    if isinstance(schema_abs, dict) and "t" in schema_abs:
        try:
            real = am.g_schema(schema_abs)
            print("schema :", repr(real))
        except Exception as e:  # noqa
            print("schema cannot be rebuilt: %s: %s" % (type(e).__name__, e))
    value = None
    has_value = isinstance(c.get("value"), dict) and "k" in c["value"]
    if has_value:
        try:
            value = am.g_value(c["value"])
            print("value  :", repr(value)[:400])
        except Exception as e:  # noqa
            has_value = False
            print("value cannot be rebuilt: %s" % e)
    if real is not None and "tape" in c:
        exc, out = valgen.real_fake(real, c["tape"]) if c["tape"] else ("", d42.fake(real))
        print("fake under tape %r -> %s" % (c["tape"], exc or repr(out)[:400]))
        if not exc:
            print("validate(schema, that) ->", d42.validate(real, out).get_errors())
    if real is not None and has_value:
        try:
            print("validate ->", d42.validate(real, value).get_errors())
        except Exception as e:  # noqa
            print("validate raised %s: %s" % (type(e).__name__, e))
        if pid in ("C04", "C05", "C12"):
            try:
                res = d42.substitute(real, value)
                print("substitute ->", repr(res))
            except Exception as e:  # noqa
                print("substitute raised %s: %s" % (type(e).__name__, str(e)[:300]))
    if "pattern" in c and isinstance(c["pattern"], str):
        from d42.generation import Random, RegexGenerator
        from . import faketape
        try:
            with faketape.installed(c.get("tape") or ["lo"]):
                out = RegexGenerator(Random(), max_repeat=c.get("max_repeat", 32)).generate(c["pattern"])
            import re
            print("generate(%r) -> %r ; fullmatch: %s" % (c["pattern"], out, bool(re.fullmatch(c["pattern"], out))))
        except Exception as e:  # noqa
            print("generate(%r) raised %s: %s" % (c["pattern"], type(e).__name__, e))
    print("recorded case:")
    print(json.dumps(c, indent=1, default=str)[:6000])
    return 0
