"""entry point:  check.py <property id> [--tier quick|thorough] [--replay path]"""
import argparse
import importlib
import os
import sys
import traceback

sys.dont_write_bytecode = True
sys.path.insert(0, os.path.dirname(os.path.dirname(os.path.abspath(__file__))))

from harness import core  # noqa: E402


def main():
    ap = argparse.ArgumentParser()
    ap.add_argument("pid")
    ap.add_argument("--tier", default=os.environ.get("VERIF_TIER", "quick"), choices=["quick", "thorough"])
    ap.add_argument("--replay")
    a = ap.parse_args()
    seed = int(os.environ.get("VERIF_SEED", "0") or 0)
    pid = a.pid.upper()
    try:
        mod = importlib.import_module("harness." + pid.lower())
        if a.replay:
            from . import replaytool
            return replaytool.replay(pid, a.replay)
        chk = core.Check(pid, a.tier, seed)
        return mod.main(chk)
    except core.MachineryFailure as e:
        print("MACHINERY-FAILURE property=%s %s" % (pid, e))
        return core.EXIT_MACHINERY
    except (KeyboardInterrupt, SystemExit):
        raise
    except BaseException:          # incl. faketape.HarnessGap: never exit 1 without a VIOLATION line
        traceback.print_exc()
        print("MACHINERY-FAILURE property=%s unexpected exception" % pid)
        return core.EXIT_MACHINERY


if __name__ == "__main__":
    rc = main()
    # everything is on disk by now; tearing down millions of recorded events object by object took
    # longer than the check itself (C06 thorough: 11 minutes after its PASS line)
    sys.stdout.flush()
    sys.stderr.flush()
    os._exit(rc if isinstance(rc, int) else (0 if rc is None else 1))
