"""C11  Constraint refinements can be declared in any order.

(A) spec/MC_C11.tla: every set of <= MaxSet distinct non-value refinements (optionally after
a value), all permutations applied on the operational model, invariant = same outcome.
(B) every set is replayed on the real DSL in every order.
(C) spec/Trace_C11.tla validates the recorded outcomes (all refused with DeclarationError, or
all accepted with results equal under the real == and identical props).
"""
import itertools
import os

from . import absmap as am
from . import core
from .common import try_abs, tla_set

TYPES = ["int", "float", "str", "list"]


from .common import exercise  # noqa: E402


def run_case(ty, base, refs):
    import d42
    recv0 = am.g_bare(ty)
    if base:
        try:
            recv0 = am.g_call(recv0, base[0])
        except Exception:
            return None
    perms = list(itertools.permutations(range(len(refs))))
    outs = []
    results = []
    for p in perms:
        obj = recv0
        exc = ""
        try:
            for i in p:
                obj = am.g_call(obj, refs[i])
        except BaseException as e:  # noqa
            exc = type(e).__name__
        if exc:
            outs.append({"exc": exc, "rep": True, "result": []})
        else:
            rep, ra = try_abs(am.a_schema, obj)
            outs.append({"exc": "", "rep": rep, "result": ra})
            results.append(obj)
    eq_all = True
    # compared twice: as built, and after each result has been looked at through its public
    # renderings (repr of the schema and of its props, generation, validation)
    for attempt in (0, 1):
        for a in results:
            for b in results:
                try:
                    if not (a == b) or (a != b) or not (a.props == b.props) or (a.props != b.props):
                        eq_all = False
                except Exception:
                    eq_all = False
        if attempt == 0:
            for a in results:
                exercise(a)
    return {"perms": [[i + 1 for i in p] for p in perms], "outs": outs, "eq_all": eq_all}


def describe(e):
    return {"type": e["ty"], "value_first": e["base"], "refinements": e["refs"],
            "outcomes": [(p, o["exc"] or "ok") for p, o in zip(e["perms"], e["outs"])],
            "eq_all": e["eq_all"]}


def main(chk):
    core.setup_repo_path()
    maxset = int(os.environ.get("VERIF_C11_MAXSET", "0")) or (3 if chk.tier == "quick" else 4)
    cfg = {"constants": {"MaxSet": str(maxset), "Types": tla_set(TYPES)},
           "invariants": ["OrderIndependent", "RefusedCleanly"]}
    res = chk.model_check("MC_C11", cfg, dump=True)
    events = []
    n = 0
    for st in core.load_dump(res):
        refs = list(st["refs"])
        if not refs:
            continue
        n += 1
        ev = {"id": n, "ty": str(st["ty"]), "base": st["base"], "refs": refs}
        rc = run_case(ev["ty"], ev["base"], refs)
        if rc is None:
            chk.count("base_not_buildable")
            chk.drift += 1
            n -= 1
            continue
        ev.update(rc)
        events.append(ev)
        chk.count("sets_of_%d" % len(refs))
        chk.count("type_" + ev["ty"])
        oks = sum(1 for o in ev["outs"] if o["exc"] == "")
        chk.count("all_accepted" if oks == len(ev["outs"]) else ("all_refused" if oks == 0 else "mixed"))
    chk.require(chk.counts.get("sets_of_2", 0) >= 500, "too few refinement pairs")
    chk.require(chk.counts.get("all_accepted", 0) >= 100, "too few sets accepted in every order")
    verdicts = chk.validate_events("Trace_C11", events)
    chk.absorb(events, verdicts, describe)
    acc = [e for e in events if all(o["exc"] == "" for o in e["outs"]) and len(e["refs"]) > 1]
    for e in (acc[:2] + events[-2:]):
        chk.sample(describe(e))
    chk.assumptions = ["refinement universe of spec/D42DslUniverse.tla (boundary parameters per method)"]
    return chk.finish(rule="every set of at most %d distinct non-value refinements of int/float/str/list, "
                           "optionally after each accepted value call; all permutations replayed on the real DSL; "
                           "non-trivial = a set with >= 2 refinements" % maxset,
                      extra={"constants": {"MaxSet": maxset}})
