"""C03  Every validation error is true and points at the offending sub-value.

Same machine and probes as C02; spec/Trace_Val.tla (Prop = "C03") checks for every recorded
error that its path leads (through the real th.get and through the spec's Locate) to the
reported sub-value, that the stated fact holds of it (ErrorTrue) and that the rendered message
is non-empty and names the path."""
from . import valcommon


def main(chk):
    return valcommon.run(chk, "C03")
