#!/usr/bin/env python3
"""Self-tests of the machinery (not part of any check's verdict):

1. every DEV_ switch that reproduces a repaired defect, switched back on with its carve-out
   disabled, makes TLC report the corresponding invariant / action property as violated
   (the invariants are not vacuous and the operational models can express the defects);
2. binding demonstrations: corrupting one recorded field makes the trace spec reject the
   event; dropping an event's field makes the run a machinery failure.
"""
import json
import os
import sys

sys.path.insert(0, os.path.dirname(os.path.dirname(os.path.abspath(__file__))))
from harness import core, tlc  # noqa: E402

SCALARS = '{"int","float","str","bool","bytes","uuid4","datetime","date"}'
ALLT = '{"int","float","str","bool","bytes","uuid4","datetime","date","list","dict","any"}'

CASES = [
    ("DEV_RegexOverflowLeaks", "MC_C10", {"Depth": "2", "Types": '{"str"}'}, {"KnownOverflow": "Never1"},
     ["OnlyDeclarationError"], "View", None),
    ("DEV_Uuid4AcceptsAnyVersion", "MC_C10", {"Depth": "2", "Types": '{"uuid4"}'}, {"KnownUuidVersion": "Never1"},
     ["FixedValueConforms"], "View", None),
    ("DEV_RegexGuardIgnoresMaxLen", "MC_C11", {"MaxSet": "2", "Types": '{"str"}'}, {"KnownRegexMaxLen": "Never0"},
     ["OrderIndependent"], None, None),
    ("DEV_FloatGridTruncates", "MC_Val", {"Depth": "2", "Types": '{"float"}', "UseContainers": "FALSE",
                                          "TapeSet": '"const"'}, {"KnownGen": "Never1"},
     ["C01_GeneratedConforms"], "View", None),
    ("DEV_DefaultMaxBelowMin", "MC_Val", {"Depth": "1", "Types": '{"int"}', "UseContainers": "TRUE",
                                          "TapeSet": '"const"'}, {"KnownGen": "Never1"},
     ["C01_GeneratedConforms"], "View", None),
    ("DEV_ListEllipsisLenIgnored", "MC_Val", {"Depth": "1", "Types": '{"int"}', "UseContainers": "TRUE",
                                              "TapeSet": '"const"'}, {"KnownGen": "Never1"},
     ["C01_GeneratedConforms"], "View", None),
    ("DEV_AlphabetErrorRootPath", "MC_Val", {"Depth": "1", "Types": '{"int"}', "UseContainers": "TRUE",
                                             "TapeSet": '"const"'}, {"AlphabetPathKnown": "Never1"},
     ["C03_ErrorsAreTrue"], "View", None),
    ("DEV_FloatRoundRaises", "MC_Val", {"Depth": "2", "Types": '{"float"}', "UseContainers": "FALSE",
                                        "TapeSet": '"const"'}, {"FloatRoundKnown": "Never1"},
     ["C08_Total"], "View", None),
    ("DEV_ContainsFallsThrough", "MC_Sub", {"Depth": "1", "Types": '{"int"}', "ContainerSet": '"level1"'},
     {"KnownFallThrough": "Never0", "SeedTapes": "AllSeedTapes"}, ["C12_OnlySubstitutionError"], "View", None),
    ("DEV_AnyLeftEmpty", "MC_Sub", {"Depth": "1", "Types": '{"int"}', "ContainerSet": '"level1"'},
     {"KnownAnyEmpty": "Never0", "SeedTapes": "AllSeedTapes"}, ["C12_ResultUsable"], "View", None),
    ("DEV_PlaceholderUnderUndeclaredKey", "MC_Sub", {"Depth": "1", "Types": '{"int"}', "ContainerSet": '"level1"'},
     {"SeedTapes": "QuickSeedTapes"}, ["C12_ResultUsable"], "View", None),
    ("DEV_PlaceholderBetweenElements", "MC_Sub", {"Depth": "1", "Types": '{"int"}', "ContainerSet": '"level1"'},
     {"SeedTapes": "QuickSeedTapes"}, ["C12_ResultUsable"], "View", None),
    ("DEV_EllipsisKeyCarriesValue", "MC_Sub", {"Depth": "1", "Types": '{"int"}', "ContainerSet": '"level1"'},
     {"SeedTapes": "QuickSeedTapes"}, ["C12_OnlySubstitutionError"], "View", None),
    ("DEV_PropsEqSchemaVsValue", "MC_Eq", {"Depth": "1"}, {"KnownMarkerVsAny": "Never2"},
     ["C15_EqualMeansSameVerdicts"], None, None),
    ("DEV_ReprEmptyListDropsLen", "MC_Repr", {"Depth": "1"}, {"KnownEmptyListLen": "Never1"},
     ["C06_ReprRoundTrips"], None, None),
    ("DEV_ListCallAliases", "D42", {"MaxPool": "3", "MaxHeap": "2", "MaxSteps": "4", "Narrow": "TRUE"}, {},
     [], "ViewNoHist", ["SchemasAreImmutableStrict"]),
    ("DEV_RegexOpcodeAsBound", "MC_Regex", {"MaxSteps": "2", "Rich": "TRUE", "MaxRepeats": "{100}", "MaxLen": "110"},
     {"KnownOpcode": "Never0"}, ["C09_FullMatchOrRefusal"], "View", None),
]


def dev_cases():
    bad = 0
    for flag, module, consts, overrides, invs, view, props in CASES:
        c = dict(tlc.dev_constants())
        c[flag] = "TRUE"
        c.update(consts)
        cfg = {"constants": c, "overrides": overrides, "invariants": invs}
        if props:
            cfg["properties"] = props
            cfg["spec"] = "Spec"
        if view:
            cfg["view"] = view
        res = tlc.run(module, cfg, "selftest_" + flag, timeout=1500)
        ok = res.violated is not None
        print("%-32s %-10s expected a counterexample: %s (%s, %d states, %.0fs)" % (
            flag, module, "FOUND" if ok else "MISSING", res.violated or res.error, res.distinct, res.wall))
        if not ok:
            bad += 1
    return bad


def binding_demo():
    """corrupt one recorded field -> rejected; remove one field -> machinery failure"""
    core.setup_repo_path()
    from harness import c10
    from harness import absmap as am
    chain = []
    call = {"m": "value", "a": [{"k": "int", "n": 1}]}
    ev = c10.run_case(chain, call, "int")
    ev.pop("recv_real")
    ev.update({"id": 1, "recv": am.a_schema(am.g_bare("int")), "call": call})
    bad = 0
    chk = core.Check("C10", "quick", 0)
    v = chk.validate_events("Trace_C10", [ev], name="selftest_bind_ok")
    print("untouched event       ->", v[1])
    bad += v[1][0] != "OK"
    ev2 = dict(ev, fixed_ok=False)
    v = chk.validate_events("Trace_C10", [ev2], name="selftest_bind_corrupt")
    print("fixed_ok corrupted    ->", v[1])
    bad += not v[1][0].startswith("FAIL")
    ev3 = dict(ev, result=[dict(ev["result"][0], min=[{"k": "int", "n": 5}])])
    v = chk.validate_events("Trace_C10", [ev3], name="selftest_bind_drift")
    print("result props altered  ->", v[1], "(drift expected)")
    bad += not v[1][1]
    ev4 = {k: v_ for k, v_ in ev.items() if k != "exc"}
    try:
        chk.validate_events("Trace_C10", [ev4], name="selftest_bind_missing")
        print("field removed         -> accepted (BAD)")
        bad += 1
    except core.MachineryFailure as e:
        print("field removed         -> machinery failure (as intended):", str(e).splitlines()[0][:100])
    bad += registry_demo(chk)
    return bad


def registry_demo(chk):
    """the registry model is bound: a recorded history with one outcome altered is drift; a
    complete custom type that is not dispatched to its hook is a violation"""
    from harness import registry
    hist = [{"a": "extend", "name": "", "cls": "", "bases": ["Mixin", "Validator"], "flag": "true", "meth": "visit_int"},
            {"a": "register", "name": "x", "cls": "CustomSchema", "bases": [], "flag": "", "meth": ""}]
    ev = dict(registry.replay(hist), id=1, hist=hist)
    bad = 0
    v = chk.validate_events("Trace_Registry", [ev], name="selftest_reg_ok", extra_constants={"Scope": '"C16"'})
    print("registry history      ->", v[1])
    bad += v[1] != ("OK", False)
    ev2 = dict(ev, access=dict(ev["access"], x="AttributeError"))      # as if the failed registration left no trace
    v = chk.validate_events("Trace_Registry", [ev2], name="selftest_reg_drift", extra_constants={"Scope": '"C16"'})
    print("access outcome altered->", v[1], "(drift expected)")
    bad += not v[1][1]
    ev3 = dict(ev, dispatch=dict(ev["dispatch"], CFull=dict(ev["dispatch"]["CFull"], Validator="NotImplementedError")))
    v = chk.validate_events("Trace_Registry", [ev3], name="selftest_reg_fail", extra_constants={"Scope": '"C16"'})
    print("hook not dispatched   ->", v[1])
    bad += not v[1][0].startswith("FAIL")
    return bad


def coverage_demo():
    """vacuity: with TLC's -coverage, every action of the multi-action machines is taken"""
    bad = 0
    runs = [
            ("PathHeap", {"constants": {"CopyOnDescend": "TRUE", "MaxDepth": "2", "MaxFan": "2"},
                          "invariants": ["ErrorsPointAtTheirValue"]}, ["Report", "Descend", "Return"])]
    for module, cfg, actions in runs:
        res = tlc.run(module, cfg, "selftest_cov_" + module, coverage=True, timeout=1500)
        missing = [a for a in actions if res.coverage.get(a, 0) == 0]
        print("%-10s actions taken: %d/%d %s (%d states)" % (module, len(actions) - len(missing), len(actions),
                                                            ("MISSING " + ", ".join(missing)) if missing else "", res.distinct))
        bad += len(missing)
    # the top-level machine: TLC's coverage mode runs out of memory on it (it costs out every set
    # constructor); the actions taken are counted from the histories stepped on real objects instead
    import json
    counts = json.load(open(os.path.join(os.path.dirname(os.path.dirname(os.path.abspath(__file__))),
                                         "evidence", "C07.json")))["coverage"]["counts"]
    ops = ["bare", "refine", "new_slist", "new_sdict", "new_value", "list_from", "dict_from", "from_native", "substitute",
           "validate", "union", "add", "eq", "make_required", "make_required_key", "alias", "represent", "fake", "mutate"]
    missing = [o for o in ops if counts.get("op_" + o, 0) == 0]
    print("D42        operations stepped on real objects (evidence/C07.json): %d/%d %s" % (
        len(ops) - len(missing), len(ops), ("MISSING " + ", ".join(missing)) if missing else ""))
    bad += len(missing)
    return bad


if __name__ == "__main__":
    n = 0
    if "--no-coverage" not in sys.argv:
        n += coverage_demo()
    if "--no-dev" not in sys.argv:
        n += dev_cases()
    if "--no-binding" not in sys.argv:
        n += binding_demo()
    print("selftest:", "OK" if n == 0 else "%d problem(s)" % n)
    sys.exit(1 if n else 0)
