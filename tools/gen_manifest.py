#!/usr/bin/env python3
"""Regenerate MANIFEST.json from the table below (single source of truth for the interface)."""
import json
import os

HERE = os.path.dirname(os.path.dirname(os.path.abspath(__file__)))
ids = [json.loads(l)["id"] for l in open(os.path.join(HERE, "properties.jsonl"))]

TRUST = ("TLC 1.8 and the TLA+ semantics; harness/absmap.py (gamma builds real objects through the public DSL, "
         "alpha reads public props/paths/errors); the bounded universes stated in the evidence file")

CHECKS = {
 "C10": dict(
    text="TLC explores every chain of <=3 (quick) / <=4 (thorough) DSL calls over valid, boundary, contradictory and "
         "wrongly-typed arguments for all 11 declarable types on the operational model spec/D42Declare.tla and checks "
         "C10 there; every distinct (receiver, call) transition is then replayed on the real DSL and the recorded "
         "events are validated by TLC against spec/Trace_C10.tla (exception type, receiver unchanged, fixed value "
         "accepted by the real validate and by the spec's Conforms, re-declaration refused).",
    design="7 C10", technique="TLA+ DSL state machine model-checked with TLC; transitions replayed on the real DSL; "
                              "recorded events trace-validated by TLC"),
}

NOT_YET = "check not built yet (work in progress; see DESIGN.md section 7)"

m = {
 "version": 1,
 "setup_cmd": "./setup.sh",
 "hooks": {"guard": "D42_VERIF",
           "enable": "no source hooks: every observation point is public or injectable; checks import d42 from "
                     "/repo's working tree ($D42_REPO overrides)",
           "baseline_off_cmd": "cd /repo && /venv/bin/python -m pytest -ra -q -p no:cacheprovider --timeout=900 "
                               "--continue-on-collection-errors",
           "source_commits": [], "add_only": True},
 "engines": [{"name": "tlc", "path": "/opt/veriftools/tla/tla2tools.jar",
              "serves_properties": sorted(CHECKS),
              "kind_free_text": "TLC 1.8 explicit-state model checker over spec/*.tla; the same TLC validates "
                                "recorded implementation events against the trace specs"}],
 "checks": [],
 "notes": "See DESIGN.md. ./check <id> --tier quick|thorough; exit 0 pass, 1 violation (VIOLATION line + replay file), "
          "2 machinery failure. Known findings: known_findings.json.",
 "not_applicable": [],
}
for pid in ids:
    if pid in CHECKS:
        c = CHECKS[pid]
        m["checks"].append({
            "property_id": pid,
            "quick_cmd": "./check %s --tier quick" % pid,
            "thorough_cmd": "./check %s --tier thorough" % pid,
            "evidence_file": "/verif/evidence/%s.json" % pid,
            "replay_cmd_template": "./check %s --replay {path}" % pid,
            "engine": "tlc",
            "level_claimed": {"category": "model_checking", "text": c["text"], "design_ref": c["design"]},
            "level_note": c.get("note", TRUST),
            "technique": c["technique"],
        })
    else:
        m["not_applicable"].append({"property_id": pid, "reason": NOT_YET})
json.dump(m, open(os.path.join(HERE, "MANIFEST.json"), "w"), indent=1)
print("MANIFEST.json: %d checks, %d not_applicable" % (len(m["checks"]), len(m["not_applicable"])))
