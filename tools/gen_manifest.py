#!/usr/bin/env python3
"""Regenerate MANIFEST.json from the table below (single source of truth for the interface)."""
import json
import os

HERE = os.path.dirname(os.path.dirname(os.path.abspath(__file__)))
ids = [json.loads(l)["id"] for l in open(os.path.join(HERE, "properties.jsonl"))]

TRUST = ("TLC 1.8 and the TLA+ semantics; harness/absmap.py (gamma builds real objects through the public DSL, "
         "alpha reads public props/paths/errors); the bounded universes stated in the evidence file")

COMMON = (" Across all checks: every schema is written through the public construction routes in turn (unions via "
          "schema.any / | in several shapes, dicts directly / via make_required / via +), custom types through a "
          "registered class or a class factory; every acceptance observation records get_errors(), has_errors(), ==, != "
          "and validate_or_fail, and spec/Trace_Entry.tla requires them to agree; model-dependent differences are "
          "reported as drift (NOTE), never as violations; findings recorded in known_findings.json are printed as "
          "KNOWN-FINDING by signature.")

CHECKS = {
 "C19": dict(
    text="TLC explores spec/MC_Migrate.tla: modules assembled row by row from a menu of import forms (one line, "
         "parenthesised, backslash; aliases, star, relative, mixed mapped/unmapped names, unmapped modules) and other "
         "statements (assignments, multi-line expressions, plain imports, strings that look like imports, def/try with "
         "nested imports, docstrings, comments), alone or sharing a line, and checks the line-splice model against the "
         "statement-level rewrite of spec/D42Migrate.tla. Every module is rendered and given to the real "
         "rewrite_imports with the real mapping; input and output are abstracted with ast and decided by "
         "spec/Trace_C19.tla (nothing-to-do only without mapped imports, output parses, other statements preserved in "
         "order, bindings equal to the migrated ones). Every one of the mapping targets is imported.",
    design="7 C19", technique="TLA+ statement-level rewrite vs line-splice model, TLC over module layouts; real "
                              "rewriter output abstracted with ast and trace-validated by TLC"),
 "C18": dict(
    text="TLC explores spec/MC_Rollout.tla: every nested mapping of the bounded tree universe (labels incl. the empty "
         "string, optional on any leaf, optional top-level `...`) and every order of its flat keys, consumed one key at a "
         "time by the machine that mirrors rollout's loop and its recursive final pass; invariant: the result is the tree. "
         "Each (tree, order) is replayed on the real rollout() with 2 (quick) / 4 (thorough) separators and labels that "
         "contain the other separators; spec/Trace_C18.tla compares the abstracted real result with the tree and the "
         "machine's result, and checks leaf identity, the `...` entry, the untouched input and identity on nested input.",
    design="7 C18", technique="TLA+ machine of the rollout loop, TLC over trees x key orders; cases replayed on the real "
                              "rollout; events trace-validated by TLC"),
 "C17": dict(
    text="spec/MC_Seed.tla states non-interference (the outputs of a seeded run are a function of seed and schemas; the "
         "interpreter configuration is a state component the generator model does not read, except at the listed "
         "environment-reading draw sites) and selects schema sequences exercising every draw site. Each (seed, "
         "sequence) is run through the module-level fake() after Random().set_seed(k), twice per process, in 4 (quick) "
         "/ 8 (thorough) fresh interpreters with different PYTHONHASHSEED; spec/Trace_C17.tla decides equality within a "
         "process and across configurations (the recorded draws are compared as drift only: the property speaks of "
         "the values). Sequences of one to four random nested declarations are run the same way. The "
         "model is thin here by design (DESIGN 10): the deciding observation is the cross-process comparison.",
    design="7 C17", technique="TLA+ non-interference statement + TLC-selected cases; cross-process seeded runs "
                              "trace-validated by TLC"),
 "C09": dict(
    text="TLC explores spec/MC_Regex.tla: regex ASTs built by constructor actions (atoms incl. ranges, negated classes "
         "and categories; capturing/non-capturing/named groups; alternation; greedy/lazy quantifiers incl. open-ended "
         "ones with a minimum above max_repeat; anchors at the ends; lookaround, backreference, \\s/\\D/\\W, atomic and "
         "possessive constructs embedded anywhere), each observed under tapes of draw outcomes and several max_repeat "
         "settings on the generator model, and checks: a returned string is a full match under the spec's "
         "set-of-end-positions matcher, a supported pattern is never refused, a reached unsupported construct raises. "
         "Every (pattern, tape, max_repeat) is printed and run on the real RegexGenerator under the scripted RNG and "
         "through fake(schema.str.regex(p)); spec/Trace_C09.tla decides with the spec matcher, re.fullmatch and validate.",
    design="7 C09", technique="TLA+ regex semantics and generator model + TLC over pattern programs x tapes; runs "
                              "replayed on the real generator; events trace-validated by TLC"),
 "C07": dict(
    text="spec/D42.tla is the top-level machine over (pool of schemas, heap of caller-owned containers, history): "
         "every public operation is an action. TLC checks the action properties SchemasAreImmutable and "
         "OperationsArePure exhaustively for histories of <=5 (quick) / <=6 (thorough) operations, then behaviours of "
         "the machine -- all histories of 3 (4) operations and 500 (8000) longer ones from TLC's simulator -- are "
         "stepped through real objects: after every step every pooled real schema is compared with its creation-time "
         "snapshot (repr, verdicts on 20 probe values, fake under fixed tapes, props) and every caller-owned container "
         "with the caller's own copy, and the history is repeated. spec/Trace_D42.tla validates the logged steps by "
         "taking the same D42.tla action for each, so the spec's pool evolves alongside the real one.",
    design="7 C07", technique="TLA+ history machine, TLC action properties + simulator behaviours replayed on real "
                              "objects; logged steps trace-validated against the same actions"),
 "C16": dict(
    text="TLC checks on spec/MC_Custom.tla, for every tree of the universe and every single wrapped position (and all "
         "positions at once), that the specification's forwarding semantics makes errors, generation and substitution "
         "coincide with the plain tree. Both trees are built on the real code, the wrapped one with a CustomSchema "
         "subclass registered through register_type, and compared on validation errors (kind, path, reported value, "
         "message), fake() under the four constant tapes, repr and substitute(); spec/Trace_Custom.tla decides the "
         "recorded comparisons.",
    design="7 C16", technique="TLA+ forwarding semantics + TLC over (tree, wrapped positions); plain vs wrapped real "
                              "trees compared, events trace-validated by TLC"),
 "C06": dict(
    text="TLC checks on spec/MC_Repr.tla that, for every scalar schema reachable by <=2 (quick) / <=3 (thorough) DSL "
         "calls, the container universe (nesting <=2 plus deeper extras, keys of six kinds) and results of + and "
         "make_required, the calls the printer model emits fold back through the DSL model to the schema printed. "
         "Each schema is built on the real DSL, printed (repr twice, represent), evaluated with {schema, optional, UUID, "
         "datetime}, compared with ==/!=, re-printed, and re-read with a recording facade; spec/Trace_Repr.tla decides "
         "the flags and evaluates the recorded expression tree under the spec's DSL. 15 000 (thorough 80 000) random "
         "declarations nested 3-5 levels are printed, evaluated and validated the same way.",
    design="7 C06", technique="TLA+ printer model folded through the DSL model, TLC; real repr/eval round trip "
                              "trace-validated by TLC"),
 "C15": dict(
    text="TLC checks on spec/MC_Eq.tla that the model of == (Props.__eq__ incl. its plain != on prop values) is "
         "reflexive, symmetric, transitive and that equal schemas give identical verdicts on all probe values, over a "
         "universe of ~800 (quick) schemas containing every single-parameter variant of the DSL argument universe. All "
         "ordered pairs are compared on the real objects with == and != in both directions; spec/Trace_Eq.tla decides "
         "the recorded relation, the verdict comparison of every pair the real code calls equal, rebuild equality and "
         "schema == value against validate().",
    design="7 C15", technique="TLA+ equality model + TLC; full real ==/!= relation recorded and trace-validated by TLC"),
 "C13": dict(
    text="TLC explores spec/MC_Comb.tla: a | b, schema.any(a | b, c), d1 + d2, make_required(d, keys), schema.alias, "
         "d[key] and iteration over operand universes (dicts with required/optional/absent keys and the relaxed marker, "
         "scalar/list/dict/any alternatives) and checks that Conforms of the result equals the meaning of the parts on "
         "probe values generated from every operand and the result (plus one-step edits). Every combination is replayed "
         "with the real operators; the real verdicts of operands and result on the probes, fake() of the result and the "
         "exposed members are validated by spec/Trace_Comb.tla.",
    design="7 C13", technique="TLA+ combinator models vs declarative meaning, TLC; combinations replayed on the real "
                              "operators; events trace-validated by TLC"),
 "C14": dict(
    text="TLC explores spec/MC_Native.tla over the plain-value universe (nesting <=3) and every injection of one "
         "non-plain member (also at dict-key positions), checking on the from_native model that the schema accepts the value, generates exactly it, "
         "rejects every one-step edit that is a different value, and that other kinds are refused with ValueError; each "
         "value is replayed on the real from_native/validate/fake and validated by spec/Trace_Native.tla, and so are "
         "1 500 (thorough 20 000) random plain values nested up to four containers, a third of them with one member of "
         "another kind at a random position.",
    design="7 C14", technique="TLA+ from_native model + TLC; values replayed on the real code; events trace-validated "
                              "by TLC"),
 "C04": dict(
    text="TLC explores the substitution machine spec/MC_Sub.tla: schemas of the container universe (level 1 + focus "
         "set in quick, all in thorough) and DSL-reachable scalars, each substituted with its generated seed values and "
         "every one-step edit of them (partial dicts at any depth, replaced members incl. an unconvertible tuple, extra "
         "keys), and checks on the operational substitutor model that the result accepts a conforming value, that every "
         "generated/accepted value carries the substituted data and that unspecified keys keep schema and optionality. "
         "Every case is replayed on the real substitute(), fake() (four constant tapes) and validate() on probe values; "
         "TLC validates the recorded observations with spec/Trace_Sub.tla (Prop=C04).",
    design="7 C04", technique="TLA+ substitutor model + TLC; cases replayed on the real substitute/fake/validate; "
                              "events trace-validated by TLC"),
 "C05": dict(
    text="Same machine as C04; invariant and trace clause: every probe or generated value the substituted schema "
         "accepts is accepted by the original schema (real validate() on both, spec/Trace_Sub.tla Prop=C05).",
    design="7 C05", technique="TLA+ refinement invariant checked with TLC; real verdict pairs trace-validated by TLC"),
 "C12": dict(
    text="Same machine as C04 over conforming, edited, partial and unconvertible values; invariants and trace clauses: "
         "substitute() raises only SubstitutionError, a returned schema is satisfiable and generatable under every "
         "constant tape, and substituting the same plain value again succeeds with an equal schema (real ==/!=).",
    design="7 C12", technique="TLA+ substitutor model + TLC; exception types, usability and idempotence observed on "
                              "the real code and trace-validated by TLC"),
 "C01": dict(
    text="TLC explores the generate/validate machine spec/MC_Val.tla: every scalar schema reachable by <=2 (quick) / "
         "<=3 (thorough) DSL calls plus ~1,850 container schemas (nesting <=2, all list forms, optional/relaxed "
         "dicts, any, alias, custom), each observed under every cyclic tape of boundary draw outcomes, and checks on "
         "the operational generator model that a satisfiable schema yields a conforming value. Every (schema, tape) "
         "is replayed on the real generator with d42.generation._random's `random` scripted to the same outcomes; "
         "TLC validates the recorded events against spec/Trace_C01.tla (fake() returned, the real validate() accepts "
         "the value, the spec's Conforms accepts it).",
    design="7 C01", technique="TLA+ generator model + TLC over schema x draw-tape space; tapes replayed into the real "
                              "generator; events trace-validated by TLC"),
 "C02": dict(
    text="On spec/MC_Val.tla TLC checks that the operational validator model (spec/D42Validate.tla Errors) reports "
         "no errors exactly when the declarative meaning (spec/D42Meaning.tla Conforms) holds, for every schema of "
         "the universe and every probe value (generated value, one-step edits at every depth, unrelated values). "
         "The same (schema, value) pairs are passed to the real validate() and `==`; TLC validates each recorded "
         "verdict against Conforms (spec/Trace_Val.tla, Prop=C02) and compares kind+path of every real error with "
         "the operational model (drift).",
    design="7 C02", technique="declarative vs operational TLA+ semantics model-checked with TLC; real verdicts "
                              "trace-validated by TLC against the declarative meaning"),
 "C03": dict(
    text="Same machine as C02; TLC checks ErrorTrue (path leads to the reported sub-value, the stated fact holds) for "
         "every error of the operational model, and for every error recorded from the real validator, together with "
         "the real th.get(value, error.path) and the rendered message (non-empty, names the path).",
    design="7 C03", technique="TLA+ error-truth predicate model-checked with TLC; real errors trace-validated by TLC"),
 "C08": dict(
    text="Same machine as C02 with the hostile-value zoo (non-finite/huge numbers, Decimal/Fraction, tuples, sets, "
         "bytearray, subclasses of built-ins, non-v4 UUIDs, UUID look-alikes, opaque objects, unusual dict keys) alone "
         "and injected at every position of a generated value. TLC checks the operational model never escapes with an "
         "exception; the real validate(), error formatting, validate_or_fail and format_result are observed on the "
         "same cases and validated by spec/Trace_Val.tla (Prop=C08).",
    design="7 C08", technique="TLA+ validator model with Python failure modes, TLC; real calls trace-validated by TLC"),
 "C11": dict(
    text="TLC explores spec/MC_C11.tla: every set of <=2 (quick) / <=3 (thorough) distinct non-value refinements of "
         "int/float/str/list, optionally after each accepted value call, and checks on the operational DSL model that "
         "all permutations give the same outcome; every set is replayed on the real DSL in every order and the recorded "
         "outcomes (exception types, real == / != between results, abstracted props) are validated by "
         "spec/Trace_C11.tla.",
    design="7 C11", technique="TLA+ DSL model, permutations enumerated by TLC; all orders replayed on the real DSL; "
                              "events trace-validated by TLC"),
 "C10": dict(
    text="TLC explores every chain of <=3 (quick) / <=4 (thorough) DSL calls over valid, boundary, contradictory and "
         "wrongly-typed arguments for all 11 declarable types on the operational model spec/D42Declare.tla and checks "
         "C10 there; every distinct (receiver, call) transition is then replayed on the real DSL and the recorded "
         "events are validated by TLC against spec/Trace_C10.tla (exception type, receiver unchanged, fixed value "
         "accepted by the real validate and by the spec's Conforms, re-declaration refused).",
    design="7 C10", technique="TLA+ DSL state machine model-checked with TLC; transitions replayed on the real DSL; "
                              "recorded events trace-validated by TLC"),
}

NOT_YET = "check not built yet (work in progress; see DESIGN.md section 7)"

m = {
 "version": 1,
 "setup_cmd": "./setup.sh",
 "hooks": {"guard": "D42_VERIF",
           "enable": "no source hooks: every observation point is public or injectable; checks import d42 from "
                     "/repo's working tree ($D42_REPO overrides)",
           "baseline_off_cmd": "cd /repo && /venv/bin/python -m pytest -ra -q -p no:cacheprovider --timeout=900 "
                               "--continue-on-collection-errors",
           "source_commits": [], "add_only": True},
 "engines": [{"name": "tlc", "path": "/opt/veriftools/tla/tla2tools.jar",
              "serves_properties": sorted(CHECKS),
              "kind_free_text": "TLC 1.8 explicit-state model checker over spec/*.tla; the same TLC validates "
                                "recorded implementation events against the trace specs"}],
 "checks": [],
 "notes": "See DESIGN.md. ./check <id> --tier quick|thorough; exit 0 pass, 1 violation (VIOLATION line + replay file), "
          "2 machinery failure. Known findings: known_findings.json.",
 "not_applicable": [],
}
for pid in ids:
    if pid in CHECKS:
        c = CHECKS[pid]
        m["checks"].append({
            "property_id": pid,
            "quick_cmd": "./check %s --tier quick" % pid,
            "thorough_cmd": "./check %s --tier thorough" % pid,
            "evidence_file": "/verif/evidence/%s.json" % pid,
            "replay_cmd_template": "./check %s --replay {path}" % pid,
            "engine": "tlc",
            "level_claimed": {"category": "model_checking", "text": c["text"] + COMMON, "design_ref": c["design"]},
            "level_note": c.get("note", TRUST),
            "technique": c["technique"],
        })
    else:
        m["not_applicable"].append({"property_id": pid, "reason": NOT_YET})
json.dump(m, open(os.path.join(HERE, "MANIFEST.json"), "w"), indent=1)
print("MANIFEST.json: %d checks, %d not_applicable" % (len(m["checks"]), len(m["not_applicable"])))
