#!/usr/bin/env python3
"""Import seeded changes from the sub-agents' scratch worktrees (/tmp/wt_<id>/out/mutN), evaluate
each with tools/run_seeded.py and keep the confirmed ones under seeded/<id>_mutN/ with meta.json.
Writes seeded/RESULTS.md.  usage: run_all_seeded.py [--only C08_mut1,...] [--force] [--jobs N]"""
import argparse
import concurrent.futures
import glob
import json
import os
import shutil
import subprocess
import sys

VERIF = os.path.dirname(os.path.dirname(os.path.abspath(__file__)))
SEEDED = os.environ.get("VERIF_SEEDED_DIR") or os.path.join(VERIF, "seeded")


def import_new():
    for pattern, prefix, tag in (("/tmp/wt_C*/out/mut*", "/tmp/wt_", ""), ("/tmp/wt2_C*/out/mut*", "/tmp/wt2_", "r2"), ("/tmp/wt3_C*/out/mut*", "/tmp/wt3_", "r3"), ("/tmp/wt4_C*/out/mut*", "/tmp/wt4_", "r4"), ("/tmp/wt5_C*/out/mut*", "/tmp/wt5_", "r5")):
        for d in sorted(glob.glob(pattern)):
            pid = d.split("/")[2][len(prefix.split("/")[-1]):]
            name = "%s_%s%s" % (pid, tag, os.path.basename(d))
            dst = os.path.join(SEEDED, name)
            if os.path.exists(os.path.join(d, "patch.diff")) and not os.path.exists(dst):
                os.makedirs(dst)
                for f in os.listdir(d):
                    if os.path.isfile(os.path.join(d, f)):
                        shutil.copy(os.path.join(d, f), dst)


def evaluate(name, also=""):
    d = os.path.join(SEEDED, name)
    pid = name.split("_")[0]
    cmd = ["/venv/bin/python", os.path.join(VERIF, "tools", "run_seeded.py"), d, pid]
    if also:
        cmd += ["--also", also]
    p = subprocess.run(cmd, stdout=subprocess.PIPE, stderr=subprocess.STDOUT, text=True, cwd=VERIF)
    txt = p.stdout[p.stdout.find("{"):]
    try:
        res = json.loads(txt)
    except Exception:
        res = {"error": p.stdout[-1500:]}
    json.dump(res, open(os.path.join(d, "result.json"), "w"), indent=1)
    return name, res


def write_results():
    rows = []
    for d in sorted(glob.glob(os.path.join(SEEDED, "C*_*mut*"))):
        name = os.path.basename(d)
        rp = os.path.join(d, "result.json")
        if not os.path.exists(rp):
            continue
        r = json.load(open(rp))
        meta = {}
        if os.path.exists(os.path.join(d, "meta.json")):
            meta = json.load(open(os.path.join(d, "meta.json")))
        checks = r.get("checks", {})
        det = [p for p, c in checks.items() if c.get("detected")]
        confirmed = r.get("tests_pass") and r.get("demo_unchanged_rc") == 0 and r.get("demo_patched_rc") not in (0, None)
        rows.append((name, meta.get("summary", ""), "yes" if confirmed else "NO", ", ".join(det) or "-",
                     "; ".join(sorted({ln.split("clause=")[1].split()[0] for c in checks.values()
                                      for ln in c.get("lines", []) if "clause=" in ln}))[:120]))
    with open(os.path.join(SEEDED, "RESULTS.md"), "w") as f:
        f.write("# Seeded changes and the checks that catch them\n\n"
                "Each change was written by an independent sub-agent that saw only the text of one property.\n"
                "`confirmed` = the patch applies, the repository's 1043 tests still pass with it, the demonstration\n"
                "passes on the unchanged tree and fails with the patch.  `caught by` = checks (quick tier) that exit 1 with a\n"
                "VIOLATION line when run against the patched tree.\n\n"
                "| change | what it is | confirmed | caught by | failing clause(s) |\n|---|---|---|---|---|\n")
        for r in rows:
            f.write("| %s | %s | %s | %s | %s |\n" % r)
    return rows


def main():
    ap = argparse.ArgumentParser()
    ap.add_argument("--only", default="")
    ap.add_argument("--force", action="store_true")
    ap.add_argument("--jobs", type=int, default=2)
    ap.add_argument("--also", default="")
    ap.add_argument("--snapshot", action="store_true",
                    help="evaluate with a frozen copy of /verif, so that edits made meanwhile do not interfere")
    a = ap.parse_args()
    if a.snapshot:
        snap = "/tmp/verif_snap_%d" % os.getpid()
        subprocess.run(["rsync", "-a", "--exclude", ".work*", "--exclude", "replays", "--exclude", "seeded",
                        "--exclude", ".git", VERIF + "/", snap + "/"], check=True)
        args = [x for x in sys.argv[1:] if x != "--snapshot"]
        env = dict(os.environ, VERIF_SEEDED_DIR=SEEDED)
        try:
            return subprocess.call(["/venv/bin/python", os.path.join(snap, "tools", "run_all_seeded.py")] + args, env=env)
        finally:
            shutil.rmtree(snap, ignore_errors=True)
    os.makedirs(SEEDED, exist_ok=True)
    import_new()
    names = [os.path.basename(d) for d in sorted(glob.glob(os.path.join(SEEDED, "C*_*mut*")))]
    if a.only:
        names = [n for n in names if n in a.only.split(",")]
    todo = [n for n in names if a.force or not os.path.exists(os.path.join(SEEDED, n, "result.json"))]
    with concurrent.futures.ThreadPoolExecutor(max_workers=a.jobs) as ex:
        for name, res in ex.map(lambda n: evaluate(n, a.also), todo):
            checks = res.get("checks", {})
            print(name, "tests_pass=%s demo=%s/%s" % (res.get("tests_pass"), res.get("demo_unchanged_rc"),
                                                     res.get("demo_patched_rc")),
                  {p: c.get("detected") for p, c in checks.items()}, flush=True)
    write_results()


if __name__ == "__main__":
    main()
