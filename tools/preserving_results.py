#!/usr/bin/env python3
"""preserving/RESULTS.md from preserving/*/result.json (written by tools/run_benign.py)"""
import glob
import json
import os

VERIF = os.path.dirname(os.path.dirname(os.path.abspath(__file__)))


def main():
    rows = []
    for d in sorted(glob.glob(os.path.join(VERIF, "preserving", "*_chg*"))):
        name = os.path.basename(d)
        try:
            r = json.load(open(os.path.join(d, "result.json")))
        except Exception:
            rows.append("| %s | (not evaluated) | | | |" % name)
            continue
        first = open(os.path.join(d, "notes.md")).read().strip().splitlines()
        title = next((ln.strip("# ").strip() for ln in first if ln.strip()), "")[:110]
        checks = r.get("checks", {})
        drift = []
        for p, c in checks.items():
            for ln in c["lines"]:
                if ln.startswith("NOTE") and "drift" in ln:
                    drift.append("%s:%s" % (p, ln.split(" in ")[1].split(" ")[0]))
        rows.append("| %s | %s | %s | %s | %s |" % (
            name, title.replace("|", "/"), " ".join("%s:%s" % (p, {0: "pass", 1: "ALARM", 2: "exit2"}.get(c["rc"], c["rc"]))
                                                    for p, c in checks.items()),
            ", ".join(drift) or "-", r.get("tests_tail", "")[:12]))
    out = ["# Behaviour-changing, property-preserving patches: do the checks stay quiet?", "",
           "| patch | what changes | quick checks run against the patched tree | drift notes (events) | suite |",
           "|---|---|---|---|---|"] + rows
    open(os.path.join(VERIF, "preserving", "RESULTS.md"), "w").write("\n".join(out) + "\n")
    print("\n".join(out))


if __name__ == "__main__":
    main()
