#!/usr/bin/env python3
"""Evaluate a seeded change:  tools/run_seeded.py <dir with patch.diff, demo.py> <property id> [--tier quick]

1. makes a scratch worktree of /repo (outside /repo and /verif), applies the patch;
2. runs the repository's test-suite there (must still pass);
3. runs the demonstration on the unchanged tree (must pass) and on the patched one (must fail);
4. runs the owning check (and any extra checks given with --also) with D42_REPO pointing at
   the patched tree and reports whether it raised a VIOLATION;
5. removes the scratch worktree.
Prints one JSON object.
"""
import argparse
import json
import os
import shutil
import subprocess
import sys
import tempfile

VERIF = os.path.dirname(os.path.dirname(os.path.abspath(__file__)))


def sh(cmd, cwd=None, env=None, timeout=3600):
    p = subprocess.run(cmd, cwd=cwd, env=env, shell=isinstance(cmd, str), stdout=subprocess.PIPE,
                       stderr=subprocess.STDOUT, text=True, timeout=timeout)
    return p.returncode, p.stdout


def main():
    ap = argparse.ArgumentParser()
    ap.add_argument("dir")
    ap.add_argument("pid")
    ap.add_argument("--tier", default="quick")
    ap.add_argument("--also", default="")
    ap.add_argument("--skip-tests", action="store_true")
    a = ap.parse_args()
    a.dir = os.path.abspath(a.dir)
    patch = os.path.join(a.dir, "patch.diff")
    demo = os.path.join(a.dir, "demo.py")
    scratch = tempfile.mkdtemp(prefix="d42seed_", dir="/tmp")
    os.rmdir(scratch)
    out = {"dir": a.dir, "property": a.pid}
    try:
        rc, o = sh(["git", "-C", "/repo", "worktree", "add", "--detach", scratch, "HEAD"])
        if rc:
            raise SystemExit("worktree: " + o)
        env = dict(os.environ, PYTHONDONTWRITEBYTECODE="1")
        # demo on the unchanged tree
        rc, o = sh(["/venv/bin/python", demo], env=dict(env, PYTHONPATH=scratch), cwd=a.dir, timeout=600)
        out["demo_unchanged_rc"] = rc
        rc, o = sh(["git", "apply", patch], cwd=scratch)
        if rc:
            out["apply_failed"] = o[-500:]
            print(json.dumps(out, indent=1))
            return 2
        if not a.skip_tests:
            rc, o = sh("/venv/bin/python -m pytest -q -p no:cacheprovider -x 2>&1 | tail -3", cwd=scratch, env=env,
                       timeout=1800)
            out["tests_tail"] = o.strip().splitlines()[-1] if o.strip() else ""
            out["tests_pass"] = " passed" in out["tests_tail"] and "failed" not in out["tests_tail"]
        rc, o = sh(["/venv/bin/python", demo], env=dict(env, PYTHONPATH=scratch), cwd=a.dir, timeout=600)
        out["demo_patched_rc"] = rc
        results = {}
        for pid in [a.pid] + [x for x in a.also.split(",") if x]:
            tag = "seed%d" % os.getpid()
            scratch_out = scratch + "_out"
            rc, o = sh([os.path.join(VERIF, "check"), pid, "--tier", a.tier],
                       env=dict(env, D42_REPO=scratch, VERIF_SEED=os.environ.get("VERIF_SEED", "0"),
                                VERIF_WORK_TAG=tag, VERIF_EVIDENCE_DIR=scratch_out, VERIF_REPLAY_DIR=scratch_out),
                       cwd=VERIF, timeout=7200)
            shutil.rmtree(os.path.join(VERIF, ".work_" + tag), ignore_errors=True)
            shutil.rmtree(scratch_out, ignore_errors=True)
            lines = [ln for ln in o.splitlines() if ln.startswith(("VIOLATION", "KNOWN-FINDING", "PASS", "FAIL",
                                                                   "MACHINERY", "NOTE"))]
            results[pid] = {"rc": rc, "detected": rc == 1 and any(ln.startswith("VIOLATION") for ln in lines),
                            "lines": [ln[:260] for ln in lines[:8]]}
        out["checks"] = results
    finally:
        sh(["git", "-C", "/repo", "worktree", "remove", "--force", scratch])
        shutil.rmtree(scratch, ignore_errors=True)
    print(json.dumps(out, indent=1))
    return 0


if __name__ == "__main__":
    sys.exit(main())
