#!/usr/bin/env python3
"""False-alarm test: apply a behaviour-preserving refactoring (patch.diff) in a scratch worktree
of /repo, make sure the repository's suite still passes, and run the given checks against the
patched tree.  Every check must exit 0 (a VIOLATION here is a false alarm of the machinery).

usage: run_benign.py <dir with patch.diff> C02,C03,...   [--tier quick]"""
import argparse
import json
import os
import shutil
import subprocess
import sys
import tempfile

VERIF = os.path.dirname(os.path.dirname(os.path.abspath(__file__)))


def sh(cmd, cwd=None, env=None, timeout=7200):
    p = subprocess.run(cmd, cwd=cwd, env=env, shell=isinstance(cmd, str), stdout=subprocess.PIPE,
                       stderr=subprocess.STDOUT, text=True, timeout=timeout)
    return p.returncode, p.stdout


def main():
    ap = argparse.ArgumentParser()
    ap.add_argument("dir")
    ap.add_argument("checks")
    ap.add_argument("--tier", default="quick")
    a = ap.parse_args()
    a.dir = os.path.abspath(a.dir)
    scratch = tempfile.mkdtemp(prefix="d42benign_", dir="/tmp")
    os.rmdir(scratch)
    out = {"dir": a.dir}
    try:
        rc, o = sh(["git", "-C", "/repo", "worktree", "add", "--detach", scratch, "HEAD"])
        if rc:
            raise SystemExit("worktree: " + o)
        rc, o = sh(["git", "apply", os.path.join(a.dir, "patch.diff")], cwd=scratch)
        if rc:
            out["apply_failed"] = o[-400:]
            print(json.dumps(out, indent=1))
            return 2
        env = dict(os.environ, PYTHONDONTWRITEBYTECODE="1")
        rc, o = sh("/venv/bin/python -m pytest -q -p no:cacheprovider -x 2>&1 | tail -2", cwd=scratch, env=env)
        out["tests_tail"] = o.strip().splitlines()[-1] if o.strip() else ""
        results = {}
        for pid in a.checks.split(","):
            tag = "benign%d" % os.getpid()
            scratch_out = scratch + "_out"
            rc, o = sh([os.path.join(VERIF, "check"), pid, "--tier", a.tier],
                       env=dict(env, D42_REPO=scratch, VERIF_WORK_TAG=tag, VERIF_EVIDENCE_DIR=scratch_out,
                                VERIF_REPLAY_DIR=scratch_out), cwd=VERIF)
            lines = [ln[:240] for ln in o.splitlines() if ln.startswith(("VIOLATION", "PASS", "FAIL", "MACHINERY", "NOTE"))]
            replay = None
            for ln in lines:
                if ln.startswith("VIOLATION") and "replay=" in ln:
                    path = ln.split("replay=")[1].split()[0]
                    try:
                        replay = json.load(open(path))
                    except Exception:
                        pass
                    break
            results[pid] = {"rc": rc, "lines": lines[:6], "first_replay": replay}
            shutil.rmtree(os.path.join(VERIF, ".work_" + tag), ignore_errors=True)
            shutil.rmtree(scratch_out, ignore_errors=True)
        out["checks"] = results
        out["false_alarms"] = [p for p, r in results.items() if r["rc"] == 1]
        out["machinery_failures"] = [p for p, r in results.items() if r["rc"] == 2]
    finally:
        sh(["git", "-C", "/repo", "worktree", "remove", "--force", scratch])
        shutil.rmtree(scratch, ignore_errors=True)
    print(json.dumps(out, indent=1, default=str)[:6000])
    return 0


if __name__ == "__main__":
    sys.exit(main())
